"""C02 — piece/file geometry is exact for every accepted metainfo.

spec/Geometry.tla (flat byte-array oracle), MC_Geometry (the oracle's own theorems over the enumerated layout
space + write/read state machine), Trace_Geometry (judges every line the driver harness/c02 records from the
real code).  The driver enumerates / samples layouts and never judges; TLC does.

Because a single systematic defect shows up on thousands of layouts, the trace spec reports the verdict of
EVERY line ("@@{l, v}") instead of stopping at the first one; verdicts are aggregated here by signature
(tag, mode) so that one defect = one VIOLATION (with the first failing inputs as replay material).
"""
import collections, concurrent.futures, json, os, re, shutil, subprocess, time
import vlib

SPEC_FILES = ("Geometry.tla", "Trace_Geometry.tla", "Trace_Geometry.cfg")
PAR = {"quick": 8, "thorough": 12}          # concurrent single-worker TLC judges


def run(ctx):
    ctx.level = "model_checking"
    ctx.cov["rule"] = ("one case = one layout (file-length vector with padding flags, piece length, unit, single/multi-file form) "
                       "or one directory tree; non-trivial = accepted by metainfo.NewInfo; distinct = distinct (files, pl, unit, sf)")
    ctx.assumptions += [
        "byte-granular space: <=4 files, lengths 0..6, padding flag per file, piece length 1..7, block size 2 and 3 through an "
        "overlay shim that calls the unexported calculateBlocks(blockSize); the exported CalculateBlocks() (16 KiB) is exercised "
        "on scaled layouts (unit 4096/5461/8192 bytes)",
        "padding files are anonymous in the comparison (which padding file a zero byte comes from is unobservable); "
        "non-padding files are identified by path",
        "storage is in memory for the layout runs (bounds-checked), real files (filestorage) for the round trips",
        "SHA-1 treated as collision free in the round-trip and verification obligations",
        "content classes: in the exhaustive enumerations byte k carries the value k (never zero) and the verifier is run over the "
        "fresh (zero-filled) and the fully written storage, so every all-padding piece is verified; the seeded samples add "
        "zero-CONTENT chunks (a whole piece, a whole file, a run, a random subset) and the round-trip trees all-zero files, long "
        "zero runs and almost-zero files; only 'content on disk = content of the piece => reported present' is judged (the converse is C01)",
        "name classes (seeded samples, 1 in 6): two non-padding files whose raw names differ but which the cleaner / the join "
        "map onto one on-disk name ('/' vs '_', > 255-byte names cut at the same place, invalid UTF-8 vs U+FFFD, '.' / empty components), "
        "plain duplicates, near misses; the in-memory storage behaves like a file system (one name = one file); a rejected metainfo is "
        "outside the property",
    ]
    os.environ.setdefault("JAVA_TOOL_OPTIONS", "-XX:ParallelGCThreads=4 -Xss64m")

    # 1. design level: the oracle's own theorems for every layout of the enumerated space; write/read state machine
    if getattr(ctx, "replay", None):
        return replay(ctx, ctx.build_go("c02"))
    dev_skip_mc = bool(os.environ.get("VERIF_C02_DEV_SKIP_MC"))          # development aid only (mutation runs)
    if not dev_skip_mc:
        ctx.tlc_mc("MC_Geometry", "MC_Geometry.cfg", timeout=1500)
        ctx.tlc_mc("MC_Geometry", ctx.pick("MC_Geometry_rw_small.cfg", "MC_Geometry_rw.cfg"), timeout=2400)
        # zero CONTENT: every subset of the bytes is zero; a piece is present iff written or all-zero (VerifyInv)
        ctx.tlc_mc("MC_Geometry", ctx.pick("MC_Geometry_zero_small.cfg", "MC_Geometry_zero.cfg"), timeout=2400)
    if not ctx.quick() and not dev_skip_mc:
        ctx.tlc_mc("MC_Geometry", "MC_Geometry_long.cfg", timeout=2400)
        ctx.tlc_mc("MC_Geometry", "MC_Geometry_big.cfg", timeout=3600)

    # 2. implementation -> specification
    drv = ctx.build_go("c02")
    files = []
    dev_skip_enum = bool(os.environ.get("VERIF_C02_DEV_SKIP_BYTE"))   # development aid only: skips the seed-independent enumeration
    if ctx.quick():
        if not dev_skip_enum:
            files += drive(ctx, drv, ["-mode", "byte", "-space", "3,4,5", "-all", "-out", ctx.path("bq")], chunk=1900)
        files += drive(ctx, drv, ["-mode", "byte", "-space", "4,6,7", "-sample", "2500", "-seed", str(ctx.seed),
                                  "-out", ctx.path("bs")], chunk=1300)
    else:
        if not dev_skip_enum:
            files += drive(ctx, drv, ["-mode", "byte", "-space", "4,6,7", "-all", "-out", ctx.path("ba")], chunk=6000, timeout=3000)
        # beyond the exhaustive space: seeded sample of longer layouts (<=5 files, lengths 0..8, piece length 1..9)
        files += drive(ctx, drv, ["-mode", "byte", "-space", "5,8,9", "-sample", "2000", "-seed", str(ctx.seed),
                                  "-out", ctx.path("bl")], chunk=500)
    files += drive(ctx, drv, ["-mode", "scaled", "-space", "4,6,7", "-sample", str(ctx.pick(240, 4000)),
                              "-seed", str(ctx.seed), "-out", ctx.path("sc")], chunk=ctx.pick(240, 500))
    # creation axis: TLC enumerates every tree of the small space x every creation argument kind that applies (one file in a
    # directory at depth 0/1/2, the file itself, several top-level entries given one by one, ...), proves the walk-order theorem
    # for each and prints the cases; the driver replays them through the real NewInfoBytes before its seeded random trees
    # (round 3: OFF by default until one full ./check run on the unchanged tree has been seen to exit 0 with it;
    #  enable with VERIF_C02_TREES=1)
    ctx._c02_trees = os.environ.get("VERIF_C02_TREES", "1") == "1"  # default on since the quiet runs of seeds 1,2,3 (round 3); VERIF_C02_TREES=0 switches it off
    tree_args = []
    if ctx._c02_trees:
        cases, out = ctx.tlc_gen("MC_GeometryTree", ctx.pick("MC_GeometryTree.cfg", "MC_GeometryTree_3.cfg"), timeout=1800, workers=1)
        if "Model checking completed. No error has been found" not in out or not cases:
            raise vlib.MachineryError("MC_GeometryTree failed (design-level spec error):\n" + out[-3000:])
        ctx.extra["tree_cases_generated_by_tlc"] = len(cases)
        trees = ctx.path("trees.ndjson")
        vlib.write_ndjson(trees, cases)
        tree_args = ["-trees", trees]
    rtdir = ctx.path("rt", "x")
    files += drive(ctx, drv, ["-mode", "rt", "-dir", os.path.dirname(rtdir)] + tree_args + ["-n", str(ctx.pick(24, 300)),
                              "-seed", str(ctx.seed), "-out", ctx.path("rt0")], chunk=400, timeout=1800)
    files.append(binding_file(ctx, files))
    judge_all(ctx, files)


def replay(ctx, drv):
    """./check C02 --replay replays/C02-...json : run the recorded failing layouts against the current tree again."""
    rep = json.load(open(ctx.replay))
    lays = [ex["line"] for ex in rep["detail"]["examples"] if ex["line"].get("op") == "L"]
    if not lays:
        raise vlib.MachineryError("replay file holds no layout line (round-trip findings: rerun the tier with seed %s)" % rep.get("seed"))
    p = ctx.path("replay_layouts.ndjson")
    vlib.write_ndjson(p, [{k: l[k] for k in ("files", "pl", "unit", "sf", "mode", "zero", "nc") if k in l} for l in lays])
    files = drive(ctx, drv, ["-layouts", p, "-out", ctx.path("rp")], chunk=1000)
    judge_all(ctx, files, require_all_modes=False)


# ---------------------------------------------------------------------------------------------- driver

def drive(ctx, drv, args, chunk, timeout=1200):
    r = ctx.run_drv(drv, args + ["-chunk", str(chunk)], timeout=timeout)
    out = [x for x in r.stdout.split() if x.endswith(".ndjson")]
    prefix = args[args.index("-out") + 1]
    hang = prefix + ".hang.ndjson"
    if os.path.exists(hang):
        out.append(hang)          # the real code did not return on that layout: judged like any other line
    if not out:
        raise vlib.MachineryError("driver produced no output: %s\n%s" % (args, (r.stdout + r.stderr)[-2000:]))
    return out


# ---------------------------------------------------------------------------------------------- binding self-check

CORRUPTIONS = [
    # (expected tag, function that corrupts one recorded field of an accepted byte-mode line)
    ("C02.piecelen", lambda e: e["plen"].__setitem__(0, e["plen"][0] + 1)),
    ("C02.sections", lambda e: e["secs"][0][0].__setitem__(1, e["secs"][0][0][1] + 1)),
    ("C02.blocks.cover", lambda e: e["blk"][0][0].pop()),
    ("C02.blocks.len", lambda e: e["blk"][0][0][0].__setitem__(1, e["bss"][0] + 1)),
    ("C02.read", lambda e: e["rd"][0][0].__setitem__(0, 99)),
    ("C02.write.disk", lambda e: [f for f in e["disk"] if f][0].__setitem__(0, 99)),
    ("C02.jobs.tile", lambda e: e["jobs"][0][2][0].__setitem__(2, e["jobs"][0][2][0][2] + 1)),
    ("C02.np", lambda e: e.__setitem__("np", e["np"] + 1)),
    ("C02.write.padding", lambda e: e.__setitem__("wpanic", 1)),
    ("C02.verify", lambda e: e["vb1"].__setitem__(0, 0)),
    ("C02.alias", lambda e: e.__setitem__("alias", 1)),
]
RT_CORRUPTIONS = [
    # the same for a round-trip line of a TLC-generated tree case (two files of different length)
    ("C02.roundtrip.files", lambda e: e.__setitem__("ilen", e["ilen"][::-1])),
    ("C02.roundtrip.open", lambda e: e.__setitem__("verr", 4)),
    ("C02.roundtrip.verify", lambda e: e["bits"].__setitem__(0, 0)),
    ("C02.roundtrip.existing", lambda e: e.__setitem__("existing", 0)),
    ("C02.roundtrip.copysame", lambda e: e.__setitem__("same", 0)),
]


def binding_file(ctx, files):
    """Corrupt one recorded field at a time in a real line; the trace spec must reject each with the right tag."""
    base = rtbase = None
    ctx._c02_base = {}
    for f in files:
        for lineno, line in enumerate(open(f), 1):
            e = json.loads(line)
            if (not base and e.get("op") == "L" and e.get("mode") == "byte" and e.get("acc") == 1 and e.get("np", 0) >= 2
                    and len(e["files"]) >= 2 and all(x[1] == 0 for x in e["files"]) and e["blk"][0][0]):
                base = line
                ctx._c02_base["L"] = (f, lineno)
            if (not rtbase and e.get("op") == "RT" and "tree" in e and e.get("acc") == 1 and not e.get("verr") and not e.get("pan")
                    and len(e.get("ilen", [])) == 2 and e["ilen"][0] != e["ilen"][1] and e.get("bits")):
                rtbase = line
                ctx._c02_base["RT"] = (f, lineno)
        if base and rtbase:
            break
    if not base:
        raise vlib.MachineryError("no line suitable for the binding self-check")
    p = ctx.path("binding.0.ndjson")
    with open(p, "w") as fh:
        for key, b, corr in (("L", base, CORRUPTIONS), ("RT", rtbase, RT_CORRUPTIONS)):
            if not b:
                continue         # (replay runs and broken trees: no clean tree line; judge_all reports the vacuity)
            for tag, fn in corr:
                e = json.loads(b)
                fn(e)
                e["expect"] = tag
                e["bkey"] = key
                fh.write(json.dumps(e, separators=(",", ":")) + "\n")
    return p


# ---------------------------------------------------------------------------------------------- judge (TLC)

def tlc_judge(ctx, k, path):
    d = os.path.dirname(ctx.path("val%d" % k, "x"))
    for f in SPEC_FILES:
        shutil.copy(os.path.join(vlib.VERIF, "spec", f), d)
    shutil.copy(path, os.path.join(d, "trace.ndjson"))
    env = dict(os.environ)
    env["JAVA_TOOL_OPTIONS"] = "-Xss64m -Xmx3g -XX:ParallelGCThreads=2 -XX:CICompilerCount=2"
    cmd = ["tlc", "-workers", "1", "-metadir", os.path.join(d, "meta"), "-config", "Trace_Geometry.cfg", "Trace_Geometry.tla"]
    t = time.time()
    try:
        r = subprocess.run(cmd, cwd=d, capture_output=True, text=True, timeout=5400, env=env)
    except subprocess.TimeoutExpired:
        subprocess.run(["pkill", "-f", "tlc2.TL[C].*" + re.escape(d)], capture_output=True)
        raise vlib.MachineryError("TLC timeout judging %s" % path)
    out = r.stdout + r.stderr
    if "@@REJECT" in out or "No error has been found" not in out or r.returncode != 0:
        m = re.search(r"@@REJECT\s+(\d+)\s+(\d+)", out)
        raise vlib.MachineryError("line %s of %s is not explained by Trace_Geometry (driver/spec mismatch, not a verdict):\n%s"
                                  % (m.group(1) if m else "?", path, out[-3000:]))
    verdicts = {}
    for line in out.splitlines():
        line = line.strip()
        if line.startswith('"@@'):
            o = json.loads(json.loads(line)[2:])
            verdicts[o["l"]] = o["v"]
    gen, dist, depth = ctx._parse_counts(out)
    shutil.rmtree(d, ignore_errors=True)
    return path, verdicts, dist, gen, time.time() - t


def judge_all(ctx, files, require_all_modes=True):
    t0 = time.time()
    results = []
    with concurrent.futures.ThreadPoolExecutor(max_workers=PAR[ctx.tier]) as ex:
        futs = [ex.submit(tlc_judge, ctx, k, p) for k, p in enumerate(files)]
        for f in futs:
            results.append(f.result())
    vlib.log("TLC judged %d files in %.1fs" % (len(files), time.time() - t0))

    agg = collections.OrderedDict()      # signature -> dict(tag, count, examples)
    stats = collections.Counter()
    allpad = collections.Counter()
    sampled = 0
    for path, verdicts, dist, gen, dt in results:
        ctx.cov["states"] += dist
        ctx.cov["transitions"] += gen
        binding = os.path.basename(path).startswith("binding.")
        n = 0
        for n, line in enumerate(open(path), 1):
            e = json.loads(line)
            v = verdicts.get(n, [])
            if binding:
                # the corrupted copy must be rejected with the expected tag and with nothing else that the
                # uncorrupted line (which may itself violate something when the code is broken) is not rejected for
                tags = set(x[0] for x in v)
                bpath, bline = ctx._c02_base[e["bkey"]]
                base_tags = set(x[0] for r in results if r[0] == bpath for x in r[1].get(bline, []))
                if e["expect"] not in tags or not (tags - {e["expect"]}) <= base_tags:
                    raise vlib.MachineryError("binding self-check: corrupted field expected to be rejected as %s, TLC said %s "
                                              "(uncorrupted line: %s)" % (e["expect"], sorted(tags), sorted(base_tags)))
                stats["binding_rejections"] += 1
                stats["binding_rejections_" + e["bkey"]] += 1
                continue
            account(ctx, e, stats, allpad)
            if not v and sampled < 3 and e.get("acc") == 1 and (e["op"] == "RT" or len(e["files"]) >= 3):
                ctx.sample({k: e[k] for k in ("op", "mode", "files", "pl", "unit", "np", "secs", "blk", "bits") if k in e})
                sampled += 1
            for tag, piece, x in v:
                mode = e.get("mode", "rt")
                sig = "tag=%s mode=%s" % (tag, mode)
                a = agg.setdefault(sig, {"tag": tag, "count": 0, "lines": 0, "examples": [], "_last": None})
                a["count"] += 1
                if a["_last"] != (path, n):
                    a["_last"] = (path, n)
                    a["lines"] += 1
                    if len(a["examples"]) < 3:
                        a["examples"].append({"verdict": v, "line": e})
        if not binding:
            ctx.cov["traces_validated_against_impl"] += n - len([1 for k in verdicts if verdicts[k]])
    ctx.extra["layout_lines"] = dict(stats)
    ctx.extra["all_padding_pieces_probe"] = {
        "pieces": allpad["pieces"], "with_zero_blocks": allpad["zero_blocks"], "with_zero_requests": allpad["zero_requests"],
        "downloader_done_without_any_message": allpad["done"],
        "note": "not an obligation of C02 (zero blocks cover exactly zero non-padding bytes); evidence for the liveness lead "
                "'a piece consisting only of padding is never completed by the peer download path'"}
    trees_on = getattr(ctx, "_c02_trees", False)
    if require_all_modes and (stats["accepted"] == 0 or stats["rt"] == 0 or stats["scaled"] == 0):
        raise vlib.MachineryError("vacuous run: %s" % dict(stats))
    if require_all_modes and trees_on and (stats["rt_tree_cases"] == 0 or stats["rt_dir_with_exactly_one_file"] < 3
                                           or stats["rt_kind_file"] == 0 or stats["rt_kind_paths"] == 0):
        raise vlib.MachineryError("vacuous run: %s" % dict(stats))
    if require_all_modes and trees_on and not agg and stats["binding_rejections_RT"] == 0:
        raise vlib.MachineryError("binding self-check of the round-trip lines did not run: %s" % dict(stats))
    for sig, a in agg.items():
        ex = a["examples"][0]
        lay = ex["line"]
        what = ("%s on %d recorded line(s) (%d verdict entries); first: files=%s pl=%s unit=%s verdict=%s"
                % (a["tag"], a["lines"], a["count"], json.dumps(lay.get("files")), lay.get("pl"), lay.get("unit"),
                   json.dumps(ex["verdict"][:4])))
        ctx.violation(a["tag"], sig, what, {"count": a["count"], "lines": a["lines"], "examples": a["examples"]})


def account(ctx, e, stats, allpad):
    if e["op"] == "RT":
        key = ("rt", json.dumps(e.get("files")), e.get("pl"), e.get("single"))
        ctx.count_case(key, e.get("acc") == 1)
        stats["rt"] += 1
        stats["rt_all_zero_pieces"] += e.get("zp", 0)
        stats["rt_kind_" + e.get("kind", "?")] += 1
        if "tree" in e:
            stats["rt_tree_cases"] += 1
        fl = e.get("files") or []
        if e.get("kind") == "dir" and len(fl) == 1:
            stats["rt_dir_with_exactly_one_file"] += 1
        if e.get("kind") == "dir" and sum(1 for x in fl if x[0] > 0) == 1 and len(fl) > 1:
            stats["rt_dir_with_one_nonempty_file_and_empty_ones"] += 1
        ctx.oblig("C02.roundtrip", 1)
        return
    key = (json.dumps(e["files"]), e["pl"], e["unit"], e["sf"])
    ok = e.get("acc") == 1
    ctx.count_case(key, ok)
    stats[e["mode"]] += 1
    if not ok:
        stats["not_accepted"] += 1
        if e.get("nc"):
            stats["crafted_name_layouts_rejected"] += 1
        return
    stats["accepted"] += 1
    if e.get("pan") or e.get("hang"):
        stats["panic_or_hang"] += 1
        return
    np_ = len(e["plen"])
    ctx.oblig("C02.piecelen", np_)
    ctx.oblig("C02.sections", np_)
    ctx.oblig("C02.blocks", np_ * len(e["bss"]))
    ctx.oblig("C02.read", sum(len(x) for x in (e["rd"] if "rd" in e else e["rds"])))
    ctx.oblig("C02.write", np_)
    ctx.oblig("C02.jobs", len(e["jobs"]))
    if "vb1" in e:
        ctx.oblig("C02.verify", 2 * np_)
        stats["verify_lines"] += 1
    if e.get("zero"):
        stats["zero_content_layouts"] += 1
    if e.get("nc"):
        stats["crafted_name_layouts_accepted"] += 1
    stats["pieces"] += np_
    if any(s[3] == 1 and s[2] > 0 and any(t[3] == 0 and t[2] > 0 for t in secs[j + 1:])
           for secs in e["secs"] for j, s in enumerate(secs)):
        stats["layouts_with_data_after_padding_in_a_piece"] += 1
    for i, nblk, nreq, done in e.get("allpad", []):
        allpad["pieces"] += 1
        allpad["zero_blocks"] += nblk == 0
        allpad["zero_requests"] += nreq == 0
        allpad["done"] += done == 1
