"""C12 — MSE handshake / stream / forced encryption (spec/MSE.tla, MC_MSE, Trace_MSE; driver harness/c12)."""
import json, os, re, subprocess
import vlib

HS_CHUNK = 4000      # lines per TLC validation run


def run(ctx):
    ctx.level = "model_checking"
    ctx.cov["rule"] = ("one case = one real handshake between two mse.Stream endpoints (pads, fragmentation class and observed "
                       "first-read sizes - incl. the TLC-generated family long pad x first read ending at the key / inside the pad / at its end -, payload size, offer, selection policy, key mode) or one real btconn Dial/Accept scenario "
                       "(policy of each side, peer kind, pads) or one real torrent.Session (encryption switches) dialing a raw scripted listener "
                       "or one schedule of 2-3 simultaneous incoming handshakes with distinct initial payloads and interleaved reads; non-trivial = at least the first message was exchanged; "
                       "distinct = distinct (configuration, outcome) tuples")
    ctx.assumptions += [
        "crypto is opaque in the model: DH secrets agree, hashes/RC4 streams match iff the SKEYs match, pad bytes never imitate a marker",
        "bare-stream runs use an unbounded in-memory pipe (writes never block) with scripted read fragmentation; policy runs use loopback TCP through a recording tap",
        "encryption on the wire is observed independently of the reported cipher: the bytes written after the handshake are searched in the raw transport",
        "a failing endpoint closes its connection (as btconn does); peers of the policy matrix are scripted (plaintext-only, MSE-only, both; selection policies; truncating step 4)"]
    # ---- 1. design level
    # one run: pads x first-read sizes, negotiation x keys x payloads (also against a hostile receiver), policy matrix
    cached = os.environ.get("VERIF_C12_SCEN")   # development aid (mutation smoke test): reuse a recorded TLC output, skip MC
    if cached:
        pout = open(cached).read()
        vlib.log("C12: design-level model checking skipped, policy matrix taken from", cached)
    else:
        _, pout = ctx.tlc_mc("MC_MSE", "MC_MSE.cfg", timeout=900)
        if not ctx.quick():
            ctx.tlc_mc("MC_MSE", "MC_MSE_full.cfg", timeout=2400)
    # ---- 2. specification -> implementation: the policy matrix enumerated by TLC (printed by MCInit of the policy
    #         configuration) is replayed into the real btconn
    scen = []
    for line in pout.splitlines():
        line = line.strip()
        if line.startswith('"@@'):
            scen.append(json.loads(json.loads(line)[2:]))
    ses_scen = [x for x in scen if x.get("fam") == "ses"]
    # fragmentation family (MC_MSE FragCases): long pads x class of the first read (key only / inside the pad / whole)
    frag = [x for x in scen if x.get("fam") == "frag"]
    frag.sort(key=lambda x: (x["padA"], x["padB"], x["frB"], x["frA"]))
    if len(frag) < 200 or not any(x["padB"] >= 505 and x["clA"] != "whole" for x in frag) \
            or not any(x["padA"] >= 493 and x["clB"] != "whole" for x in frag):
        raise vlib.MachineryError("fragmentation family generator produced only %d cases / no long pad with a fragmented first read" % len(frag))
    fragp = ctx.path("frag.ndjson")
    vlib.write_ndjson(fragp, frag)
    ctx.extra["fragmentation_cases_generated_by_tlc"] = len(frag)
    scen = [x for x in scen if "fam" not in x]
    if len(ses_scen) < 18:
        raise vlib.MachineryError("session matrix generator produced only %d scenarios" % len(ses_scen))
    ses_scen.sort(key=lambda x: json.dumps(x, sort_keys=True))
    if ctx.quick():     # quick: every (switches, listener kind) once, ForceIncomingEncryption alternating with the seed
        byk = {}
        for x in ses_scen:
            byk.setdefault(json.dumps(x["sc"], sort_keys=True), []).append(x)
        ses_scen = [v[(i + ctx.seed) % len(v)] for i, (k, v) in enumerate(sorted(byk.items()))]
    ctx.extra["session_scenarios_generated_by_tlc"] = len(ses_scen)
    if len(scen) < 60:
        raise vlib.MachineryError("policy matrix generator produced only %d scenarios" % len(scen))
    sp = ctx.path("scen.ndjson")
    vlib.write_ndjson(sp, scen)
    ctx.extra["policy_scenarios_generated_by_tlc"] = len(scen)
    drv = ctx.build_go("c12")
    # ---- 2b. isolation of the initial payload between simultaneous incoming connections: MC_MSEIso checks the design
    #          for every interleaving and prints every complete schedule; the schedules are replayed with real streams
    _, iout = ctx.tlc_mc("MC_MSEIso", ctx.pick("MC_MSEIso.cfg", "MC_MSEIso_full.cfg"), timeout=900, workers=4)
    scheds = [json.loads(json.loads(x.strip())[2:]) for x in iout.splitlines() if x.strip().startswith('"@@')]
    if len(scheds) < 100:
        raise vlib.MachineryError("schedule generator produced only %d schedules" % len(scheds))
    isp = ctx.path("isosched.ndjson")
    vlib.write_ndjson(isp, scheds)
    ctx.extra["iso_schedules_generated_by_tlc"] = len(scheds)
    iso_out = ctx.path("iso.ndjson")
    iso_proc = subprocess.Popen([drv, "-mode", "iso", "-sched", isp, "-seed", str(ctx.seed), "-reps", str(ctx.pick(2, 3)), "-out", iso_out],
                                cwd=ctx.scratch, env=dict(vlib.GOENV), stdout=subprocess.PIPE, stderr=subprocess.STDOUT, text=True)
    # ---- 2c. session level: a real torrent.Session dials a raw scripted listener under every setting of the switches
    ssp = ctx.path("sesscen.ndjson")
    vlib.write_ndjson(ssp, ses_scen)
    ses_out = ctx.path("ses.ndjson")
    ses_proc = subprocess.Popen([drv, "-mode", "ses", "-sched", ssp, "-seed", str(ctx.seed), "-out", ses_out],
                                cwd=ctx.scratch, env=dict(vlib.GOENV), stdout=subprocess.PIPE, stderr=subprocess.STDOUT, text=True)
    # ---- 3. implementation -> specification
    lines = []
    nsh = ctx.pick(1, 4)
    n = ctx.pick(450, 6000)
    procs = []
    for i in range(nsh):
        out = ctx.path("hs%d.ndjson" % i)
        args = [drv, "-mode", "hs", "-n", str(n), "-seed", str(ctx.seed), "-shard", "%d/%d" % (i, nsh), "-frag", fragp, "-out", out]
        if not ctx.quick():
            args.append("-grid")
        e = dict(vlib.GOENV)
        procs.append((subprocess.Popen(args, cwd=ctx.scratch, env=e, stdout=subprocess.PIPE, stderr=subprocess.STDOUT, text=True), out))
    for p, out in procs:
        try:
            o, _ = p.communicate(timeout=1500)
        except subprocess.TimeoutExpired:
            p.kill()
            raise vlib.MachineryError("hs driver timed out")
        if p.returncode != 0:
            raise vlib.MachineryError("hs driver failed (%d):\n%s" % (p.returncode, o[-3000:]))
        lines += vlib.read_ndjson(out)
    hs_lines = lines
    nfrag = sum(1 for e in hs_lines if e.get("fam") == "frag")
    if nfrag != len(frag) and not any(e["hang"] for e in hs_lines):
        raise vlib.MachineryError("hs driver replayed %d of %d fragmentation cases" % (nfrag, len(frag)))
    # the transport delivered the scripted first reads (observed sizes are what TLC judges; this is only the steering check)
    want = set((x["padA"], x["padB"], x["frA"], x["frB"]) for x in frag)
    off = [e for e in hs_lines if e.get("fam") == "frag" and e["frA"] >= 0 and e["frB"] >= 0 and e["hang"] == 0
           and (e["padA"], e["padB"], e["frA"], e["frB"]) not in want]
    if off:
        raise vlib.MachineryError("first-read steering failed for %s" % json.dumps(off[0]))
    pol_out = ctx.path("pol.ndjson")
    ctx.run_drv(drv, ["-mode", "pol", "-scen", sp, "-seed", str(ctx.seed), "-reps", str(ctx.pick(1, 4)), "-out", pol_out], timeout=900)
    pol_lines = vlib.read_ndjson(pol_out)
    if len(pol_lines) != len(scen) * ctx.pick(1, 4) and not any("timeout" in (e["ra"], e["rb"]) for e in pol_lines):
        raise vlib.MachineryError("policy driver produced %d lines for %d scenarios" % (len(pol_lines), len(scen)))
    try:
        o, _ = iso_proc.communicate(timeout=900)
    except subprocess.TimeoutExpired:
        iso_proc.kill()
        raise vlib.MachineryError("iso driver timed out")
    if iso_proc.returncode != 0:
        raise vlib.MachineryError("iso driver failed (%d):\n%s" % (iso_proc.returncode, o[-3000:]))
    iso_lines = vlib.read_ndjson(iso_out)
    if len(iso_lines) != len(scheds) * ctx.pick(2, 3) and not any(e["hang"] for e in iso_lines):
        raise vlib.MachineryError("iso driver produced %d lines for %d schedules" % (len(iso_lines), len(scheds)))
    try:
        o, _ = ses_proc.communicate(timeout=1200)
    except subprocess.TimeoutExpired:
        ses_proc.kill()
        raise vlib.MachineryError("session driver timed out")
    if ses_proc.returncode != 0:
        raise vlib.MachineryError("session driver failed (%d): a connection attempt that never happens is not a verdict\n%s"
                                  % (ses_proc.returncode, o[-3000:]))
    ses_lines = vlib.read_ndjson(ses_out)
    if len(ses_lines) != len(ses_scen):
        raise vlib.MachineryError("session driver produced %d lines for %d scenarios" % (len(ses_lines), len(ses_scen)))
    account(ctx, hs_lines, pol_lines)
    account_ses(ctx, ses_lines)
    account_iso(ctx, iso_lines)
    # machinery sanity: the pad hook steered every run
    bad = [e for e in hs_lines if e["steer"] != 1]
    if bad:
        raise vlib.MachineryError("pad steering failed (hook order?) for %s" % json.dumps(bad[0]))
    # judge: policy lines in small groups (known findings cost one re-run each), handshakes in chunks
    allv = ses_lines + pol_lines + hs_lines
    k = 0
    for i in range(0, len(allv), HS_CHUNK):
        judge(ctx, allv[i:i + HS_CHUNK], "tr%d" % k)
        k += 1


def hs_key(e):
    return ("HS", e.get("fam", ""), e["padA"], e["padB"], e["padC"], e["padD"], e["chA"], e["chB"], e["frA"], e["frB"], e["ia"], e["provide"],
            e["selpol"], e["keymode"], e["loose"], e["ra"], e["rb"], e["ca"], e["cb"])


def pol_key(e):
    return ("POL", e["dk"], e["enable"], e["force"], e["provide"], e["ck"], e["forceIn"], e["selpol"], e["keymode"], e["trunc"], e["loose"],
            e["padA"], e["padB"], e["padC"], e["padD"], e["ra"], e["ca"], e["rb"], e["cb"], e["natt"])


def account(ctx, hs, pol):
    pairs = set()
    frs = set()
    for e in hs:
        ctx.count_case(hs_key(e), e["frB"] >= 0)
        pads = (e["padA"], e["padB"], e["padC"], e["padD"])
        for i in range(4):
            for j in range(i + 1, 4):
                pairs.add((i, j, pads[i], pads[j]))
        frs.add((e["padA"], e["frB"]))
        frs.add((e["padB"], e["frA"]))
        both = e["ra"] == "ok" and e["rb"] == "ok"
        ctx.oblig("C12.sync", 1 if e["frB"] >= 0 else 0)
        ctx.oblig("C12.agree", 1)
        ctx.oblig("C12.cipher", 1 if both else 0)
        ctx.oblig("C12.stream", 1 if both else 0)
        ctx.oblig("C12.payload", 1 if (both or e["ia"] > 65535) else 0)
        ctx.oblig("C12.wrongkey", 1 if e["keymode"] != "same" else 0)
    for e in pol:
        ctx.count_case(pol_key(e), e["natt"] >= 1)
        ctx.oblig("C12.forced.out", 1 if (e["dk"] == "rain" and e["force"] == 1) else 0)
        ctx.oblig("C12.forced.in", 1 if (e["ck"] == "rain" and e["forceIn"] == 1) else 0)
        ctx.oblig("C12.agree", 1)
        if e["ra"] == "ok":
            ctx.oblig("C12.cipher", 1)
            ctx.oblig("C12.stream", 1)
    ctx.extra["handshakes"] = len(hs)
    ctx.extra["fragmentation_cases_replayed"] = sum(1 for e in hs if e.get("fam") == "frag")
    # first read ended before the end of a long pad of the peer (the remaining scan is longer than 512 - marker length)
    ctx.extra["handshakes_initiator_first_read_inside_long_padB"] = sum(1 for e in hs if e["padB"] >= 505 and 96 <= e["frA"] < 96 + e["padB"])
    ctx.extra["handshakes_acceptor_first_read_inside_long_padA"] = sum(1 for e in hs if e["padA"] >= 493 and 96 <= e["frB"] < 96 + e["padA"])
    ctx.extra["policy_runs"] = len(pol)
    ctx.extra["policy_runs_with_redial"] = sum(1 for e in pol if e["natt"] > 1)
    ctx.extra["handshakes_completed"] = sum(1 for e in hs if e["ra"] == "ok" and e["rb"] == "ok")
    ctx.extra["handshakes_hanging"] = sum(1 for e in hs if e["hang"] == 1)
    ctx.extra["distinct_pad_value_pairs"] = len(pairs)
    ctx.extra["distinct_pad_firstread_pairs"] = len(frs)
    ctx.extra["chunk_classes"] = sorted(set(e["chA"] for e in hs) | set(e["chB"] for e in hs))
    if hs:
        ctx.sample(hs[0])
    if pol:
        ctx.sample(pol[0])


def account_ses(ctx, ses):
    for e in ses:
        ctx.count_case(("SES", e["enable"], e["force"], e["sfi"], e["ck"], e["keymode"], e["natt"], e["nplain"], e["p1"], e["p2"], e["rb"], e["cb"]),
                       e["natt"] >= 1)
        ctx.oblig("C12.forced.out", e["natt"] if e["force"] == 1 else 0)
    ctx.extra["session_runs"] = len(ses)
    ctx.extra["session_runs_with_plaintext_retry"] = sum(1 for e in ses if e["natt"] > 1)
    ctx.extra["session_connection_attempts_observed"] = sum(e["natt"] for e in ses)
    if ses:
        ctx.sample(ses[0])


def iso_rel(e):
    """size relation of the payloads in handshake order, e.g. 1<2=3"""
    r = "1"
    for k in range(1, e["nc"]):
        a, b = e["lens"][k - 1], e["lens"][k]
        r += ("<" if a < b else ">" if a > b else "=") + str(k + 1)
    return r


def iso_overlap(e):
    """a later handshake completed while an earlier connection's payload was not yet (completely) read"""
    left = {}
    for o in e["ops"]:
        if o["k"] == "hs":
            if any(v > 0 for v in left.values()):
                return True
            left[o["c"]] = e["lens"][o["c"] - 1]
        else:
            left[o["c"]] -= o["n"]
    return False


def account_iso(ctx, iso):
    for e in iso:
        ctx.count_case(("ISO", e["nc"], tuple(e["lens"]), e["ord"], e["unit"], e["split"], tuple(o["src"] for o in e["ops"]), tuple(e["post"])),
                       iso_overlap(e))
        ctx.oblig("C12.payload", sum(1 for o in e["ops"] if o["k"] == "rd"))
        ctx.oblig("C12.agree", e["nc"])
        ctx.oblig("C12.stream", e["nc"])
    ctx.extra["iso_runs"] = len(iso)
    ctx.extra["iso_runs_later_handshake_before_earlier_payload_read"] = sum(1 for e in iso if iso_overlap(e))
    ctx.extra["iso_orders"] = len(set((e["nc"], e["ord"]) for e in iso))
    ctx.extra["iso_units"] = sorted(set(e["unit"] for e in iso))
    if iso:
        ctx.sample(iso[0])
        judge(ctx, iso, "iso", module="Trace_MSEIso", cfg="Trace_MSEIso_all.cfg")


def signature(tag, e):
    if e["op"] == "SES":
        return ("tag=%s op=SES disableOut=%d forceOut=%d forceIn=%d listener=%s keymode=%s natt=%d nplain=%d p1=%d p2=%d rb=%s cb=%d"
                % (tag, 1 - e["enable"], e["force"], e["sfi"], e["ck"], e["keymode"], e["natt"], e["nplain"], e["p1"], e["p2"], e["rb"], e["cb"]))
    if e["op"] == "ISO":
        return ("tag=%s op=ISO nc=%d order=%s sizes=%s overlap=%d split=%d src=%s post=%s"
                % (tag, e["nc"], e["ord"], iso_rel(e), 1 if iso_overlap(e) else 0, e["split"],
                   ",".join(str(o["src"]) for o in e["ops"]), ",".join(str(x) for x in e["post"])))
    if e["op"] == "POL":
        return ("tag=%s op=POL dk=%s enable=%d force=%d provide=%d ck=%s forceIn=%d selpol=%s keymode=%s loose=%d trunc=%d natt=%d ra=%s ca=%d rb=%s cb=%d"
                % (tag, e["dk"], e["enable"], e["force"], e["provide"], e["ck"], e["forceIn"], e["selpol"], e["keymode"], e["loose"], e["trunc"],
                   e["natt"], e["ra"], e["ca"], e["rb"], e["cb"]))
    return ("tag=%s op=HS pads=%d,%d,%d,%d fr=%d,%d ch=%s,%s ia=%d provide=%d selpol=%s keymode=%s loose=%d ra=%s ca=%d rb=%s cb=%d"
            % (tag, e["padA"], e["padB"], e["padC"], e["padD"], e["frA"], e["frB"], e["chA"], e["chB"], e["ia"], e["provide"],
               e["selpol"], e["keymode"], e["loose"], e["ra"], e["ca"], e["rb"], e["cb"]))


WHAT = {
    "C12.sync": "synchronisation point not found / handshake hangs for pads within 0..511",
    "C12.agree": "the two sides do not end in the same state (one completes, ciphers differ, or a valid handshake fails)",
    "C12.cipher": "reported cipher is not an offered single method / is not the one in use on the wire",
    "C12.stream": "bytes written after the handshake are not read unchanged by the peer",
    "C12.wrongkey": "handshake completes without the right SKEY",
    "C12.payload": "initial payload lost/garbled or oversize payload accepted",
    "C12.forced.out": "forced outgoing encryption: plaintext redial / plaintext connection attempt, or non-RC4 / clear-text connection returned by Dial",
    "C12.forced.in": "forced incoming encryption: non-RC4 / clear-text connection returned by Accept",
}


def judge(ctx, lines, name, module="Trace_MSE", cfg="Trace_MSE_all.cfg"):
    """One TLC run judges every line (Trace_MSE_all.cfg: the tags are printed as @@VIOL <line> <tag>, TLC does not stop
    at the first one).  Trace_MSE.cfg (INVARIANT NoViolation) is the stop-at-first form used for diagnosis."""
    cur = ctx.path("%s.ndjson" % name)
    vlib.write_ndjson(cur, lines)
    res = ctx.tlc_validate(module, cur, cfg=cfg, ntraces=0, timeout=1800)
    if not res["ok"]:
        hw = res["hwm"]
        raise vlib.MachineryError("line %s of %s is not explained by %s (driver/spec mismatch, not a verdict): %s\n%s"
                                  % (hw, name, module, json.dumps(lines[hw]) if hw is not None and hw < len(lines) else "?",
                                     res["out"][-2500:]))
    found = {}
    for m in re.finditer(r'@@VIOL (\d+) (\S+?)"?\s*$', res["out"], re.M):
        found[int(m.group(1))] = m.group(2)
    ctx.cov["traces_validated_against_impl"] += len(lines) - len(found)
    real = [ln for ln in sorted(found) if found[ln] != "C12.model"]
    for ln in real:
        tag, ev = found[ln], lines[ln - 1]
        ctx.violation(tag, signature(tag, ev), "%s: %s" % (WHAT.get(tag, tag), json.dumps(ev)[:600]), {"line": ev})
    model = [lines[ln - 1] for ln in sorted(found) if found[ln] == "C12.model"]
    if model and real:
        # the tree already breaks a stated obligation in this batch: the lines that merely leave the model are recorded as leads
        ctx.extra.setdefault("leads_outside_model", [])
        ctx.extra["leads_outside_model"] += [signature("C12.model", ev) for ev in model[:10]]
    elif model:
        raise vlib.MachineryError("recorded line is outside the specification without breaking a stated obligation: %s" % json.dumps(model[0]))
