"""C12 — MSE handshake / stream / forced encryption (spec/MSE.tla, MC_MSE, Trace_MSE; driver harness/c12)."""
import json, os, re, subprocess
import vlib

HS_CHUNK = 4000      # lines per TLC validation run


def run(ctx):
    ctx.level = "model_checking"
    ctx.cov["rule"] = ("one case = one real handshake between two mse.Stream endpoints (pads, fragmentation class and observed "
                       "first-read sizes, payload size, offer, selection policy, key mode) or one real btconn Dial/Accept scenario "
                       "(policy of each side, peer kind, pads); non-trivial = at least the first message was exchanged; "
                       "distinct = distinct (configuration, outcome) tuples")
    ctx.assumptions += [
        "crypto is opaque in the model: DH secrets agree, hashes/RC4 streams match iff the SKEYs match, pad bytes never imitate a marker",
        "bare-stream runs use an unbounded in-memory pipe (writes never block) with scripted read fragmentation; policy runs use loopback TCP through a recording tap",
        "encryption on the wire is observed independently of the reported cipher: the bytes written after the handshake are searched in the raw transport",
        "a failing endpoint closes its connection (as btconn does); peers of the policy matrix are scripted (plaintext-only, MSE-only, both; selection policies; truncating step 4)"]
    # ---- 1. design level
    # one run: pads x first-read sizes, negotiation x keys x payloads (also against a hostile receiver), policy matrix
    cached = os.environ.get("VERIF_C12_SCEN")   # development aid (mutation smoke test): reuse a recorded TLC output, skip MC
    if cached:
        pout = open(cached).read()
        vlib.log("C12: design-level model checking skipped, policy matrix taken from", cached)
    else:
        _, pout = ctx.tlc_mc("MC_MSE", "MC_MSE.cfg", timeout=900)
        if not ctx.quick():
            ctx.tlc_mc("MC_MSE", "MC_MSE_full.cfg", timeout=2400)
    # ---- 2. specification -> implementation: the policy matrix enumerated by TLC (printed by MCInit of the policy
    #         configuration) is replayed into the real btconn
    scen = []
    for line in pout.splitlines():
        line = line.strip()
        if line.startswith('"@@'):
            scen.append(json.loads(json.loads(line)[2:]))
    if len(scen) < 60:
        raise vlib.MachineryError("policy matrix generator produced only %d scenarios" % len(scen))
    sp = ctx.path("scen.ndjson")
    vlib.write_ndjson(sp, scen)
    ctx.extra["policy_scenarios_generated_by_tlc"] = len(scen)
    drv = ctx.build_go("c12")
    # ---- 3. implementation -> specification
    lines = []
    nsh = ctx.pick(1, 4)
    n = ctx.pick(450, 6000)
    procs = []
    for i in range(nsh):
        out = ctx.path("hs%d.ndjson" % i)
        args = [drv, "-mode", "hs", "-n", str(n), "-seed", str(ctx.seed), "-shard", "%d/%d" % (i, nsh), "-out", out]
        if not ctx.quick():
            args.append("-grid")
        e = dict(vlib.GOENV)
        procs.append((subprocess.Popen(args, cwd=ctx.scratch, env=e, stdout=subprocess.PIPE, stderr=subprocess.STDOUT, text=True), out))
    for p, out in procs:
        try:
            o, _ = p.communicate(timeout=1500)
        except subprocess.TimeoutExpired:
            p.kill()
            raise vlib.MachineryError("hs driver timed out")
        if p.returncode != 0:
            raise vlib.MachineryError("hs driver failed (%d):\n%s" % (p.returncode, o[-3000:]))
        lines += vlib.read_ndjson(out)
    hs_lines = lines
    pol_out = ctx.path("pol.ndjson")
    ctx.run_drv(drv, ["-mode", "pol", "-scen", sp, "-seed", str(ctx.seed), "-reps", str(ctx.pick(1, 4)), "-out", pol_out], timeout=900)
    pol_lines = vlib.read_ndjson(pol_out)
    if len(pol_lines) != len(scen) * ctx.pick(1, 4) and not any("timeout" in (e["ra"], e["rb"]) for e in pol_lines):
        raise vlib.MachineryError("policy driver produced %d lines for %d scenarios" % (len(pol_lines), len(scen)))
    account(ctx, hs_lines, pol_lines)
    # machinery sanity: the pad hook steered every run
    bad = [e for e in hs_lines if e["steer"] != 1]
    if bad:
        raise vlib.MachineryError("pad steering failed (hook order?) for %s" % json.dumps(bad[0]))
    # judge: policy lines in small groups (known findings cost one re-run each), handshakes in chunks
    allv = pol_lines + hs_lines
    k = 0
    for i in range(0, len(allv), HS_CHUNK):
        judge(ctx, allv[i:i + HS_CHUNK], "tr%d" % k)
        k += 1


def hs_key(e):
    return ("HS", e["padA"], e["padB"], e["padC"], e["padD"], e["chA"], e["chB"], e["frA"], e["frB"], e["ia"], e["provide"],
            e["selpol"], e["keymode"], e["loose"], e["ra"], e["rb"], e["ca"], e["cb"])


def pol_key(e):
    return ("POL", e["dk"], e["enable"], e["force"], e["provide"], e["ck"], e["forceIn"], e["selpol"], e["keymode"], e["trunc"], e["loose"],
            e["padA"], e["padB"], e["padC"], e["padD"], e["ra"], e["ca"], e["rb"], e["cb"], e["natt"])


def account(ctx, hs, pol):
    pairs = set()
    frs = set()
    for e in hs:
        ctx.count_case(hs_key(e), e["frB"] >= 0)
        pads = (e["padA"], e["padB"], e["padC"], e["padD"])
        for i in range(4):
            for j in range(i + 1, 4):
                pairs.add((i, j, pads[i], pads[j]))
        frs.add((e["padA"], e["frB"]))
        frs.add((e["padB"], e["frA"]))
        both = e["ra"] == "ok" and e["rb"] == "ok"
        ctx.oblig("C12.sync", 1 if e["frB"] >= 0 else 0)
        ctx.oblig("C12.agree", 1)
        ctx.oblig("C12.cipher", 1 if both else 0)
        ctx.oblig("C12.stream", 1 if both else 0)
        ctx.oblig("C12.payload", 1 if (both or e["ia"] > 65535) else 0)
        ctx.oblig("C12.wrongkey", 1 if e["keymode"] != "same" else 0)
    for e in pol:
        ctx.count_case(pol_key(e), e["natt"] >= 1)
        ctx.oblig("C12.forced.out", 1 if (e["dk"] == "rain" and e["force"] == 1) else 0)
        ctx.oblig("C12.forced.in", 1 if (e["ck"] == "rain" and e["forceIn"] == 1) else 0)
        ctx.oblig("C12.agree", 1)
        if e["ra"] == "ok":
            ctx.oblig("C12.cipher", 1)
            ctx.oblig("C12.stream", 1)
    ctx.extra["handshakes"] = len(hs)
    ctx.extra["policy_runs"] = len(pol)
    ctx.extra["policy_runs_with_redial"] = sum(1 for e in pol if e["natt"] > 1)
    ctx.extra["handshakes_completed"] = sum(1 for e in hs if e["ra"] == "ok" and e["rb"] == "ok")
    ctx.extra["handshakes_hanging"] = sum(1 for e in hs if e["hang"] == 1)
    ctx.extra["distinct_pad_value_pairs"] = len(pairs)
    ctx.extra["distinct_pad_firstread_pairs"] = len(frs)
    ctx.extra["chunk_classes"] = sorted(set(e["chA"] for e in hs) | set(e["chB"] for e in hs))
    if hs:
        ctx.sample(hs[0])
    if pol:
        ctx.sample(pol[0])


def signature(tag, e):
    if e["op"] == "POL":
        return ("tag=%s op=POL dk=%s enable=%d force=%d provide=%d ck=%s forceIn=%d selpol=%s keymode=%s loose=%d trunc=%d natt=%d ra=%s ca=%d rb=%s cb=%d"
                % (tag, e["dk"], e["enable"], e["force"], e["provide"], e["ck"], e["forceIn"], e["selpol"], e["keymode"], e["loose"], e["trunc"],
                   e["natt"], e["ra"], e["ca"], e["rb"], e["cb"]))
    return ("tag=%s op=HS pads=%d,%d,%d,%d fr=%d,%d ch=%s,%s ia=%d provide=%d selpol=%s keymode=%s loose=%d ra=%s ca=%d rb=%s cb=%d"
            % (tag, e["padA"], e["padB"], e["padC"], e["padD"], e["frA"], e["frB"], e["chA"], e["chB"], e["ia"], e["provide"],
               e["selpol"], e["keymode"], e["loose"], e["ra"], e["ca"], e["rb"], e["cb"]))


WHAT = {
    "C12.sync": "synchronisation point not found / handshake hangs for pads within 0..511",
    "C12.agree": "the two sides do not end in the same state (one completes, ciphers differ, or a valid handshake fails)",
    "C12.cipher": "reported cipher is not an offered single method / is not the one in use on the wire",
    "C12.stream": "bytes written after the handshake are not read unchanged by the peer",
    "C12.wrongkey": "handshake completes without the right SKEY",
    "C12.payload": "initial payload lost/garbled or oversize payload accepted",
    "C12.forced.out": "forced outgoing encryption: plaintext redial or non-RC4 / clear-text connection returned by Dial",
    "C12.forced.in": "forced incoming encryption: non-RC4 / clear-text connection returned by Accept",
}


def judge(ctx, lines, name):
    """One TLC run judges every line (Trace_MSE_all.cfg: the tags are printed as @@VIOL <line> <tag>, TLC does not stop
    at the first one).  Trace_MSE.cfg (INVARIANT NoViolation) is the stop-at-first form used for diagnosis."""
    cur = ctx.path("%s.ndjson" % name)
    vlib.write_ndjson(cur, lines)
    res = ctx.tlc_validate("Trace_MSE", cur, cfg="Trace_MSE_all.cfg", ntraces=0, timeout=1800)
    if not res["ok"]:
        hw = res["hwm"]
        raise vlib.MachineryError("line %s of %s is not explained by Trace_MSE (driver/spec mismatch, not a verdict): %s\n%s"
                                  % (hw, name, json.dumps(lines[hw]) if hw is not None and hw < len(lines) else "?",
                                     res["out"][-2500:]))
    found = {}
    for m in re.finditer(r'@@VIOL (\d+) (\S+?)"?\s*$', res["out"], re.M):
        found[int(m.group(1))] = m.group(2)
    ctx.cov["traces_validated_against_impl"] += len(lines) - len(found)
    for ln in sorted(found):
        tag, ev = found[ln], lines[ln - 1]
        if tag == "C12.model":
            raise vlib.MachineryError("recorded line is outside the specification without breaking a stated obligation: %s" % json.dumps(ev))
        ctx.violation(tag, signature(tag, ev), "%s: %s" % (WHAT.get(tag, tag), json.dumps(ev)[:600]), {"line": ev})
