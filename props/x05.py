"""X05 — moving a torrent between two sessions over RPC (spec/Move.tla, MC_Move*, Trace_Move; driver harness/x05).

Specification-coverage extension (not one of the 20 listed properties; not in MANIFEST.json).
1. design level: the step-wise model of Torrent.Move (source) and handleMoveTorrent (target) with every failure and crash
   point keeps the obligations X05.a-f when the six small repairs are in (MC_Move_fixed*), the model of the code AS IT IS
   keeps what it does keep (MC_Move_asis_known) and breaks exactly the invariants that reading the code predicted
   (MC_Move_asis_<lead>: required to be found, otherwise the model has drifted); liveness under weak fairness.
2. implementation: TLC enumerates every (situation, fault) history of the design model with the abstract states it predicts;
   the driver replays them on TWO REAL sessions (child processes, real RPC servers, bbolt databases, data directories, a
   failure-injecting TCP proxy in between, SIGKILL for crashes) plus seeded random multi-move histories; Trace_Move judges
   every observation with the same predicates in one TLC pass and compares with the predictions (drift detection).
"""
import json, os, random, re, threading
from concurrent.futures import ThreadPoolExecutor
import vlib

ASIS_LEADS = [  # (cfg, invariant the code as it is must break, what it means)
    ("MC_Move_asis_runstate.cfg", "SourceRunState", "a failed move leaves a running torrent stopped at the source (Move stops it and undoes nothing)"),
    ("MC_Move_asis_orphandata.cfg", "NoOrphanData", "a receive that fails after the first file leaves DataDir/<id> at the target with no record"),
    ("MC_Move_asis_bitfield.cfg", "TargetBitfield", "the resume record is read while the loop's stop() has not written the bitfield yet: the target gets a stale bitfield"),
    ("MC_Move_asis_self.cfg", "AtLeastOne", "a move to the session itself: the handler removes the 'duplicate' with its data, the source then removes the copy"),
    ("MC_Move_asis_reserve.cfg", "SessionInvariants", "the handler does not reserve the id: an AddTorrent with that id during the transfer is overwritten and orphaned"),
    ("MC_Move_asis_walk.cfg", "ClaimsOnlyIntact", "a file that vanishes under generateTar's walk ends the archive silently: the target claims pieces it never got"),
    ("MC_Move_limit_crashorphan.cfg", "NoOrphanDataEvenAfterCrash", "design limit (also with the repairs): a target killed while receiving leaves unreferenced files"),
]

# driver fault -> labels of the design model whose predictions it may realise
FAULT_LABELS = {
    "none": [()], "self": [()],
    "refuse": [("refuse",)],
    "cut:pre": [("cut@pre",)], "cut:data:u0": [("cut@data0",)], "cut:data:u1": [("cut@data1",)], "cut:resp": [("cut@data2",), ("cut@late",)],
    "disk:0": [("disk@0",)], "disk:1": [("disk@1",)], "dbfail": [("dbfail",)],
    "tcrash:data:u0": [("tcrash@data0",)], "tcrash:data:u1": [("tcrash@data1",)],
    "tcrash:db": [("tcrash@data2",), ("tcrash@late",)], "tcrash:resp": [("tcrash@late",)],
    "scrash:data:u0": [("scrash@data0",)], "scrash:data:u1": [("scrash@data1",)], "scrash:resp": [("scrash@data2",), ("scrash@late",)],
    "sclose:u0": [("sclose@data0",)], "sclose:u1": [("sclose@data1",)],
    "srm:keep:u0": [("srm:keep@data0",)], "srm:keep:u1": [("srm:keep@data1",)],
    "srm:del:u0": [("srm:del@data0",)], "srm:del:u1": [("srm:del@data1",)],
    "tadd:u0": [("tadd@data0",)], "tadd:u1": [("tadd@data1",)],
}
FAULT_CLASSES = ["none", "self", "refuse", "cut", "disk", "dbfail", "tcrash", "scrash", "sclose", "srm", "tadd"]
HAVES = {0: [[1, 2, 4, 6], [2, 3, 5, 6], [1, 2, 3, 4, 5, 6]], 1: [[1, 3, 5], [2, 4, 5], [1, 2, 3, 4, 5]], 2: [[1, 3, 5], [2, 4]]}

_lock = threading.Lock()


def run(ctx):
    ctx.level = "model_checking"
    ctx.cov["rule"] = ("one case = one recorded history of two real sessions: set-up, 1-3 moves of the torrent (each with one injected "
                       "fault or none), observations of both sessions after every move and after their restart; non-trivial = at least one "
                       "move was executed; distinct = distinct (situation, fault sequence, reported results)")
    ctx.assumptions += [
        "file storage with DataDirIncludesTorrentID = true (the default); with false, generateTar streams the whole DataDir of the source - not explored",
        "ids identify a torrent across the two sessions: a torrent that the target holds under the moved id is replaced by design "
        "('duplicate torrent id, removing existing one') and is not counted as lost",
        "ResumeWriteInterval = 1 h, ResumeOnStartup = true; trackers point to closed loopback ports; no peers except the scripted seeder of the 'dirty' situation",
        "crash = SIGKILL of the session's process; the file system and bbolt are trusted to keep what was fsync'ed",
        "the network either delivers or cuts (proxy); there is no request time-out in Torrent.Move, a stalled peer blocks the call for ever",
        "model-only failure points (not forceable on the real code): loadExistingTorrent failing after the record was written, crashes of the "
        "source between its own database steps, crashes of the target before the data part",
    ]
    orig = ctx._spec_copy

    def locked_copy():
        with _lock:
            return orig()
    ctx._spec_copy = locked_copy
    if getattr(ctx, "selftest", False):
        return selftest(ctx)
    preds = design_level(ctx)
    implementation(ctx, preds)


# ------------------------------------------------------------------------------------------------- 1. design level

REPAIR_MARKS = {   # repair of spec/Move.tla -> (file, text that only the repaired code contains)
    "restart": ("torrent/session_torrent.go", "status != Stopped && status != Stopping"),
    "flush": ("torrent/session_torrent.go", "_ = t.torrent.Stats()"),
    "cleanup": ("torrent/session_move_torrent.go", "removeData()"),
    "reserve": ("torrent/session_move_torrent.go", "session.reserveID(id)"),   # (not "unreserveID(id)": round 4, DESIGN 13)
    "self": ("torrent/session_move_torrent.go", "moving.Load()"),
    "walk": ("torrent/session_torrent.go", "os.Stat(root)"),
}


def detect_fixes():
    """Which of the proposed repairs (fixes/X05-*.diff) the tree under test contains: the predictions are generated for
    exactly that variant of the design model (the fixes are applied to /repo one by one while checks run)."""
    got = set()
    for name, (f, mark) in REPAIR_MARKS.items():
        try:
            if mark in open(os.path.join(vlib.REPO, f)).read():
                got.add(name)
        except OSError:
            pass
    return got


def gen_for(ctx, fixes, out):
    """TLC as generator on MC_Move_gen_asis.cfg with FIX replaced by the detected set of repairs."""
    d = ctx._spec_copy()
    cfg = open(os.path.join(d, "MC_Move_gen_asis.cfg")).read()
    cfg = re.sub(r"FIX = \{[^}]*\}", "FIX = {%s}" % ", ".join('"%s"' % x for x in sorted(fixes)), cfg)
    with open(os.path.join(d, "MC_Move_gen_tree.cfg"), "w") as fh:
        fh.write(cfg)
    rc, o, dt = ctx._tlc(d, "MC_Move.tla", "MC_Move_gen_tree.cfg", [], 900, 1)
    items = []
    for line in o.splitlines():
        line = line.strip()
        if line.startswith('"@@'):
            try:
                items.append(json.loads(json.loads(line)[2:]))
            except Exception:
                pass
    gen, dist, _ = ctx._parse_counts(o)
    ctx.cov["states"] += dist
    ctx.cov["transitions"] += gen
    vlib.log("TLC GEN MC_Move (FIX = %s): %d items, %d states, %.1fs rc=%d" % (sorted(fixes), len(items), dist, dt, rc))
    if rc != 0 or not items:
        raise vlib.MachineryError("generator failed:\n%s" % o[-3000:])
    out["gen"] = items


def design_level(ctx):
    skip = bool(os.environ.get("VERIF_SKIP_MC"))       # development / mutation runs: the design level does not depend on the code
    out = {}

    def mc(cfg, workers=2, timeout=900):
        ctx.tlc_mc("MC_Move", cfg, timeout=timeout, workers=workers)

    def lead(cfg, inv, what):
        ok, o = ctx.tlc_mc("MC_Move", cfg, timeout=600, workers=2, expect_ok=False)
        if ok or ("Invariant %s is violated" % inv) not in o:
            raise vlib.MachineryError("model %s no longer violates %s - specification drifted:\n%s" % (cfg, inv, o[-1500:]))
        out.setdefault("leads", {})[inv] = {"lead": what, "counterexample_states": len(re.findall(r"\nState \d+: ", o))}

    fixes = detect_fixes()
    ctx.extra["repairs_detected_in_tree"] = sorted(fixes)
    jobs = [lambda: gen_for(ctx, fixes, out)]
    if not skip:
        jobs += [lambda: mc("MC_Move_fixed.cfg", 3), lambda: mc("MC_Move_asis_known.cfg", 3), lambda: mc("MC_Move_live.cfg"),
                 lambda: mc("MC_Move_live_fixed.cfg")]
        jobs += [(lambda c=c, i=i, w=w: lead(c, i, w)) for c, i, w in ASIS_LEADS]
        if not ctx.quick():
            jobs += [lambda: mc("MC_Move_fixed2.cfg", 4, 1500)]
    else:
        ctx.assumptions.append("VERIF_SKIP_MC: design-level model checking skipped in this run")
    with ThreadPoolExecutor(max_workers=5) as ex:
        for f in [ex.submit(j) for j in jobs]:
            f.result()
    if "leads" in out:
        ctx.extra["asis_design_leads"] = out["leads"]
    preds = {}
    for cfg in ("gen",):
        for it in out[cfg]:
            key = (it["run"], it["dirty"], it["binit"], tuple(it["faults"]))
            preds.setdefault(key, {}).setdefault(it["phase"], [])
            if it["abs"] not in preds[key][it["phase"]]:
                preds[key][it["phase"]].append(it["abs"])
    if len(preds) < 200:
        raise vlib.MachineryError("the generator produced only %d (situation, fault) histories" % len(preds))
    ctx.extra["model_histories"] = len(preds)
    return preds


# ------------------------------------------------------------------------------------------------- 2. implementation

def gen_plans(ctx, preds):
    rng = random.Random(ctx.seed)
    plans = []
    unforceable = set()
    used = set()
    for run in (True, False):
        for dirty in (False, True):
            for binit in ("empty", "dupsame", "dupother", "dupih", "full", "self"):
                for fault, labels in FAULT_LABELS.items():
                    if (fault == "self") != (binit == "self"):
                        continue
                    # the handler removes the data directory of a torrent it replaces, with every obstacle planted in it, and
                    # its first database step is then the removal, not the write: not forceable in these situations
                    if binit in ("dupsame", "dupother") and (fault.startswith("disk") or fault == "tcrash:db"):
                        continue
                    keys = [(run, dirty, binit, lab) for lab in labels if (run, dirty, binit, lab) in preds]
                    if not keys:
                        continue
                    used.update(keys)
                    for after in ("crash", "close"):
                        p = {"settled": [], "final": []}
                        for k in keys:
                            for a in preds[k].get("settled", []):
                                if a not in p["settled"]:
                                    p["settled"].append(a)
                            for a in preds[k].get("final:" + after, []):
                                if a not in p["final"]:
                                    p["final"].append(a)
                        layout = rng.choice([0, 1])
                        have = rng.choice(HAVES[layout][:2] if dirty or rng.random() < 0.7 else HAVES[layout])
                        dst = "A" if binit == "self" else "B"
                        plans.append({"kind": "gen", "key": "run=%d dirty=%d binit=%s fault=%s after=%s" % (run, dirty, binit, fault, after),
                                      "layout": layout, "have": have, "run": run, "dirty": dirty, "binit": "empty" if binit == "self" else binit,
                                      "tracker": rng.random() < 0.3, "two": False, "pred": p,
                                      "moves": [{"src": "A", "dst": dst, "id": "m", "fault": fault, "after": after}]})
    # the archive generator must still be inside the first file when the user removes the torrent with its data: one
    # history on a 20 MiB first file (the small layouts are streamed completely before the proxy stalls)
    k = (False, False, "empty", ("srm:del@data0",))
    if k in preds:
        used.add(k)
        plans.append({"kind": "gen", "key": "run=0 dirty=0 binit=empty fault=srm:del:big after=close", "layout": 3, "have": list(range(1, 83)),
                      "run": False, "dirty": False, "binit": "empty", "tracker": False, "two": False,
                      "pred": {"settled": preds[k].get("settled", []), "final": preds[k].get("final:close", [])},
                      "moves": [{"src": "A", "dst": "B", "id": "m", "fault": "srm:del:60", "after": "close"}]})
    for k in preds:
        if k not in used:
            unforceable.add(k[3])
    unforceable -= {k[3] for k in used}
    ctx.extra["model_fault_labels_not_forced"] = sorted({"+".join(x) for x in unforceable})
    ctx.extra["model_histories_not_forced"] = len([k for k in preds if k not in used])
    return plans


def pick_quick(ctx, plans):
    """Quick tier: a seeded sample that still drives every fault class, both run states, every target situation."""
    rng = random.Random(ctx.seed * 7919)
    byclass = {}
    for p in plans:
        c = p["moves"][0]["fault"].split(":")[0]
        byclass.setdefault(c, []).append(p)
    out = []
    for c, ps in sorted(byclass.items()):
        rng.shuffle(ps)
        n = {"none": 6, "cut": 7, "tcrash": 5, "scrash": 4}.get(c, 3)
        out += ps[:n]
    # the findings' situations are always in (they are also the vacuity guards of the known-finding matchers)
    must = ["run=0 dirty=0 binit=empty fault=srm:del:big", "run=1 dirty=0 binit=empty fault=refuse", "run=1 dirty=1 binit=empty fault=none", "run=1 dirty=0 binit=self fault=self",
            "run=1 dirty=0 binit=empty fault=tadd:u1", "run=0 dirty=0 binit=empty fault=cut:data:u1", "run=0 dirty=0 binit=empty fault=none"]
    keys = {p["key"] for p in out}
    for m in must:
        for p in plans:
            if p["key"].startswith(m) and p["key"] not in keys:
                out.append(p)
                keys.add(p["key"])
                break
    return out


def rand_plans(ctx, n):
    rng = random.Random(ctx.seed * 104729 + 17)
    faults = ["none", "none", "refuse", "cut:pre", "cut:resp", "disk:0", "disk:1", "dbfail", "tcrash:db", "tcrash:resp", "scrash:resp",
              "self", "timeout:%d", "cut:data:%d", "tcrash:data:%d", "scrash:data:%d", "sclose:%d", "srm:keep:%d", "srm:del:%d", "tadd:%d",
              "tcrash:dbx:%d"]
    plans = []
    for i in range(n):
        layout = rng.randrange(3)
        np_ = {0: 6, 1: 5, 2: 5}[layout]
        run = rng.random() < 0.6
        dirty = run and rng.random() < 0.15
        k = rng.randint(1, np_ - 1 if dirty else np_)
        have = sorted(rng.sample(range(1, np_ + 1), k))
        moves = []
        for _ in range(rng.randint(1, 3)):
            f = rng.choice(faults)
            if "%d" in f:
                f = f % (rng.randint(0, 20000) if f.startswith("tcrash:dbx") else rng.randint(20, 980))
            moves.append({"src": "auto", "dst": "", "id": "m", "fault": f, "after": rng.choice(["", "crash", "close"])})
        plans.append({"kind": "rand", "key": "rand-%d-%d" % (ctx.seed, i), "layout": layout, "have": have, "run": run, "dirty": dirty,
                      "binit": rng.choice(["empty", "empty", "empty", "dupsame", "dupother", "dupih", "full"]),
                      "tracker": rng.random() < 0.3, "two": rng.random() < 0.3, "pred": {"settled": [], "final": []}, "moves": moves})
    return plans


def implementation(ctx, preds):
    plans = gen_plans(ctx, preds)
    ctx.extra["forceable_model_histories"] = len(plans)
    if ctx.quick():
        plans = pick_quick(ctx, plans)
    only = os.environ.get("VERIF_X05_ONLY")          # development / mutation runs
    if only:
        plans = [p for p in plans if re.search(only, p["key"])]
        ctx.assumptions.append("VERIF_X05_ONLY=%s: reduced run" % only)
    plans += rand_plans(ctx, 0 if only else ctx.pick(8, 60))
    drv = ctx.build_go("x05")
    pp = ctx.path("plans.ndjson")
    vlib.write_ndjson(pp, plans)
    tp = ctx.path("trace.ndjson")
    r = ctx.run_drv(drv, ["run", "-plans", pp, "-seed", str(ctx.seed), "-par", str(ctx.pick(8, 10)), "-out", tp], timeout=ctx.pick(600, 1500))
    st = json.loads(r.stdout.strip().splitlines()[-1])
    ctx.extra["driver"] = st
    if st["env_abandoned"] * 5 > st["scenarios"]:
        raise vlib.MachineryError("more than 20%% of the histories were abandoned for environment failures: %s\n%s" % (st, r.stderr[-3000:]))
    judge(ctx, tp, strict=not only)


# ------------------------------------------------------------------------------------------------- judging

def split(path):
    traces, cur = [], []
    for line in open(path):
        e = json.loads(line)
        if e["op"] == "Init":
            if cur:
                traces.append(cur)
            cur = []
        cur.append(e)
    if cur:
        traces.append(cur)
    return traces


def fault_class(f):
    p = f.split(":")
    if p[0] in ("cut", "tcrash", "scrash") and len(p) > 1:
        return p[0] + ":" + p[1]
    return p[0]


def signature(tag, t, pos):
    """Class of the violated observation: obligation, fault class of the last move, situation, reported result."""
    mv, ret, obs = None, None, t[pos - 1]
    nmoves = 0
    dirty = False
    overwritten = {}          # session -> the move during which an AddTorrent with the moved id succeeded there
    for e in t[:pos]:
        if e["op"] == "move":
            mv, ret = e, None
            nmoves += 1
        elif e["op"] == "ret":
            ret = e
        elif e["op"] == "add" and e["id"] == "m" and e["s"] == "A":
            dirty = e["dirty"]
        elif e["op"] == "addsame" and e["ok"]:
            overwritten[e["s"]] = (mv, None)
        elif e["op"] == "restart":
            overwritten.pop(e["s"], None)       # an unregistered torrent loop does not survive the process
    if tag.startswith("X05.e.") and overwritten and mv and fault_class(mv["fault"]) != "tadd":
        # the orphan of an earlier move is still there: the observation belongs to that move
        mv = list(overwritten.values())[0][0]
        ret = {"res": "ok"}
    binit = t[0].get("binit", "?") if nmoves <= 1 else "later"
    return "tag=%s fault=%s binit=%s dirty=%d res=%s obs=%s" % (
        tag, fault_class(mv["fault"]) if mv else "-", binit if not (mv and mv["src"] == mv["dst"]) else "self",
        1 if dirty and nmoves <= 1 else 0, ret["res"] if ret else "-", obs.get("tag", obs["op"]))


def slim(e):
    if e["op"] != "obs":
        return {k: v for k, v in e.items() if k != "pred"}
    return {"op": "obs", "tag": e["tag"], "ss": [
        {"s": s["s"], "up": s["up"], "avail": s["avail"], "loops": s["loops"], "invalid": s["invalid"], "panic": s["panic"],
         "live": [(x["id"], x["t"], x["port"], x["st"], x["bf"] if x["hasbf"] else None) for x in s["live"]],
         "db": [(x["id"], x["t"], x["port"], x["started"], x["bf"] if x["hasbf"] else None) for x in s["db"]],
         "disk": [(x["id"], x["nfiles"], x["g1"], x["g2"]) for x in s["disk"]]} for s in e["ss"]]}


def account(ctx, traces):
    classes = {}
    for t in traces:
        moves = [e for e in t if e["op"] == "move"]
        rets = [e for e in t if e["op"] == "ret"]
        key = (t[0]["key"] if t[0]["kind"] == "gen" else tuple(m["fault"] for m in moves), tuple(r["res"] for r in rets))
        ctx.count_case(key, bool(moves))
        last = None
        for e in t:
            if e["op"] == "move":
                classes[e["kind"]] = classes.get(e["kind"], 0) + 1
                ctx.oblig("X05.f", 1)
            elif e["op"] == "ret":
                last = e["res"]
                ctx.oblig("X05.ret." + e["res"], 1)
            elif e["op"] == "restart":
                ctx.oblig("X05.restart." + e["how"], 1)
            elif e["op"] == "obs":
                ctx.oblig("X05.d", 1)
                ctx.oblig("X05.e", 1)
                if all(s["up"] for s in e["ss"]):
                    ctx.oblig("X05.a", 1)
                if last == "fail":
                    ctx.oblig("X05.b", 1)
                elif last == "ok":
                    ctx.oblig("X05.c", 1)
                if t[0]["kind"] == "gen" and e["tag"] != "setup":
                    ctx.oblig("X05.prediction-compared", 1)
    ctx.extra["fault_classes_driven"] = classes
    return classes


def judge(ctx, tp, strict=True):
    traces = split(tp)
    if not traces:
        raise vlib.MachineryError("no history was recorded")
    index, n = [], 0
    for t in traces:
        index.append((n, t))
        n += len(t)
    classes = account(ctx, traces)
    ctx.sample({"history": [slim(e) for e in traces[0][:8]]})
    res = ctx.tlc_validate("Trace_Move", tp, ntraces=len(traces), timeout=1800)
    if not res["ok"] and res["hwm"] is not None:
        raise vlib.MachineryError("Trace_Move could not explain line %s (driver/spec mismatch, not a verdict):\n%s" % (res["hwm"], res["out"][-2500:]))
    seen, tags, drift = set(), {}, []
    for tag, line in res["viols"]:
        i = max(k for k, (off, _) in enumerate(index) if off < line)
        off, t = index[i]
        pos = line - off
        tags[tag] = tags.get(tag, 0) + 1
        if tag == "X05.drift":
            drift.append((t[0]["key"], t[pos - 1].get("tag"), line))
            continue
        sig = signature(tag, t, pos)
        if sig in seen:
            continue
        seen.add(sig)
        ctx.violation(tag, sig, "%s at event %d (%s) of history '%s'" % (tag, pos, t[pos - 1].get("tag", t[pos - 1]["op"]), t[0]["key"]),
                      {"history": [slim(e) for e in t[:pos]]})
    ctx.extra["violated_tags_by_count"] = tags
    if drift:
        m = re.findall(r"@@DRIFT (\d+) (.*)", res["out"])
        raise vlib.MachineryError("the design model does not predict what the code did in %d observation(s), e.g. %s; observed abstraction: %s"
                                  % (len(drift), drift[:3], m[:1]))
    if strict:
        missing = [c for c in FAULT_CLASSES if classes.get(c, 0) == 0]
        if missing:
            raise vlib.MachineryError("fault classes never driven (vacuous run): %s" % missing)
        for tag in ("X05.a", "X05.b", "X05.c", "X05.d", "X05.prediction-compared", "X05.restart.crash", "X05.restart.close", "X05.restart.down"):
            if ctx.obligation_counts.get(tag, 0) < 3:
                raise vlib.MachineryError("obligation %s was evaluated %d times only (vacuous run)" % (tag, ctx.obligation_counts.get(tag, 0)))
    return res


# ------------------------------------------------------------------------------------------------- binding demonstration

def selftest(ctx):
    """Corrupt one recorded field of an accepted history and require the rejection (BUILDING.md rule 6)."""
    drv = ctx.build_go("x05")
    plans = [{"kind": "probe", "key": "selftest", "layout": 0, "have": [1, 2, 4, 6], "run": False, "dirty": False, "binit": "dupih", "tracker": True,
              "two": False, "pred": {"settled": [], "final": []}, "moves": [{"src": "A", "dst": "B", "id": "m", "fault": "none", "after": "close"}]}]
    pp, tp = ctx.path("st_plans.ndjson"), ctx.path("st.ndjson")
    vlib.write_ndjson(pp, plans)
    ctx.run_drv(drv, ["run", "-plans", pp, "-seed", str(ctx.seed), "-par", "1", "-out", tp], timeout=300)
    base = split(tp)[0]
    res = ctx.tlc_validate("Trace_Move", tp, ntraces=1)
    if not res["ok"] or res["viols"]:
        raise vlib.MachineryError("selftest base history is not accepted cleanly: %s" % res["viols"])
    muts = []

    def final(evs, s):
        return [x for x in [e for e in evs if e["op"] == "obs"][-1]["ss"] if x["s"] == s][0]

    def mutate(fn, expect):
        evs = json.loads(json.dumps(base))
        fn(evs)
        p = ctx.path("st_mut.ndjson")
        vlib.write_ndjson(p, evs)
        r = ctx.tlc_validate("Trace_Move", p, ntraces=0)
        got = sorted({t for t, _ in r["viols"]})
        muts.append({"expect": expect, "got": got})
        if expect not in got:
            raise vlib.MachineryError("selftest: corrupted history was not rejected as %s (got %s)" % (expect, got))

    def live_m(evs, s):
        return [x for x in final(evs, s)["live"] if x["id"] == "m"][0]

    mutate(lambda evs: final(evs, "B")["live"].remove(live_m(evs, "B")), "X05.c.target")
    mutate(lambda evs: live_m(evs, "B")["bf"].pop(), "X05.c.bitfield")
    mutate(lambda evs: [d["g1"].pop() for d in final(evs, "B")["disk"] if d["id"] == "m"], "X05.d")
    mutate(lambda evs: final(evs, "B")["avail"].append(live_m(evs, "B")["port"]), "X05.e.ports")
    mutate(lambda evs: live_m(evs, "B")["trk"].pop(), "X05.c.identity")
    mutate(lambda evs: final(evs, "A")["db"].append(dict(final(evs, "B")["db"][0], id="m")), "X05.c.source")
    mutate(lambda evs: live_m(evs, "B").__setitem__("run", True), "X05.c.target")
    mutate(lambda evs: [x for x in final(evs, "B")["live"] if x["id"] == "m9"][0].__setitem__("name", "other"), "X05.bystander")
    ctx.extra["selftest"] = muts
    ctx.oblig("X05.selftest", len(muts))
    print("selftest ok: %d corrupted histories rejected" % len(muts), flush=True)
