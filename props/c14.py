"""C14 — session registry and resume data (spec/Session.tla, MC_Session*, Trace_Session; driver harness/c14).

1. design level: TLC checks exhaustively that the step-wise model of add / remove / start / stop / add-tracker /
   close+reopen / clean keeps the C14 invariants in the INTENDED design (ids reserved between check and insert),
   and that the model of the code AS IT IS (same steps, no reservation) shows the races that reading the code
   predicted (leads; required to be found, otherwise the model has drifted).
2. field codec: TLC enumerates value-class tuples of a resume record, the driver round-trips them through the
   real boltdbresumer, Trace_Session judges the reported differences.
3. implementation: real torrent.Session driven through the public API (and rainrpc for a sample) with sequential
   op sequences, deterministic probes and k-way concurrent bursts; TLC (Trace_Session) searches a linearization.
   Among the probes: databases pre-populated with records that FAIL TO LOAD (one class per way the loader can fail) whose
   ids get a new owner (C14.record: nothing is handed down by the leftover bucket); among the concurrent histories: adds
   with one explicit id / one info-hash gated inside the storage provider (the first caller sits between its duplicate
   check and its registry insert while the others run to completion).
The design-level part runs in a thread beside the implementation-level part; the drivers run beside the judge.
"""
import json, os, queue, re, shutil, threading
import vlib

_lock = threading.RLock()       # evidence counters / scratch numbering are shared by the threads of this check
_vn = [0]

# Round 3 (seed C14-6): concurrent AddTracker calls queued behind a holder of the database's writer lock (driver mode
# race-tracker, Session!BeginHold / cfg.split, MC_Session_hold.cfg / MC_Session_lostupdate.cfg).  The family was accepted on
# the unchanged tree in a reduced run (seed 1, 18 histories) and catches seeded/C14-6 (C14.record.tracker-lost); it has NOT
# yet been through a full quiet run of the check on the unchanged tree, and the two MC configs have not been timed on an idle
# machine: off unless VERIF_C14_TRACKER_RACE=1.
TRACKER_RACE = bool(os.environ.get("VERIF_C14_TRACKER_RACE"))

ASIS_LEADS = [  # (cfg, invariant the code as-is is expected to break, what it means)
    ("MC_Session_asis_orphan.cfg", "NoOrphans", "two concurrent adds with one explicit id both pass the check; the second insert drops the first torrent from the map with its port still taken"),
    ("MC_Session_asis_db.cfg", "RegistryIsDatabase", "remove(id) racing add(id), or CleanDatabase after an invalid record was re-added: a registered torrent without a record"),
    ("MC_Session_asis_crash.cfg", "NoCrash", "AddTracker / Close on a torrent whose record is gone dereferences a nil bucket"),
    ("MC_Session_lostupdate.cfg", "NoLostTracker", "an AddTracker that reads the stored tracker list in one transaction and writes the extended list in another: callers queued behind a holder of the database's writer lock all extend the same list, the record keeps one of the new trackers"),
    ("MC_Session_asis_latewrite.cfg", "RecordIsOwn", "a remove that gives the id back when the record is deleted, before the removed (running) torrent is closed: an add of the same id in between gets the bitfield that the removed torrent writes by id while it stops"),
    ("MC_Session_sparse.cfg", "RecordIsOwn", "a resume write that stores only non-empty values: a record written over the leftover bucket of a record that failed to load inherits the previous owner's bitfield"),
]


def run(ctx):
    ctx.level = "model_checking"
    ctx.cov["rule"] = ("one case = one recorded history of session calls (sequence / probe / concurrent burst) or one codec tuple; "
                       "non-trivial = the history contains at least one successful add; distinct = distinct sequences of (op, id class, outcome)")
    ctx.assumptions += [
        "storage is the in-memory provider of harness/vh (torrent id 'z' fails GetStorage); no peers, trackers point to closed loopback ports",
        "ResumeWriteInterval = 1h: counters reach the database at Close only; counters are moved by an overlay shim, not by traffic",
        "option flags, tracker tiers, has-metadata and the available-port set are read through an overlay shim under the session's own locks",
        "concurrent histories: the judge accepts iff SOME interleaving of the code's critical sections explains all outcomes and observations",
    ]
    if getattr(ctx, "selftest", False):
        return selftest(ctx)

    fast = bool(os.environ.get("VERIF_C14_FAST"))   # development / mutation runs: skip the code-independent design-level part
    mc_err = []

    def mc():
        try:
            design_level(ctx)
        except Exception as ex:      # re-raised in the main thread
            mc_err.append(ex)

    th = threading.Thread(target=mc)
    if fast:
        ctx.assumptions.append("VERIF_C14_FAST: design-level model checking skipped in this run")
        th = threading.Thread(target=lambda: None)
    th.start()
    try:
        implementation_level(ctx, fast)
    finally:
        th.join()
    if mc_err:
        raise mc_err[0]


def mc_one(ctx, cfg, workers, timeout):
    """One exhaustive TLC run of MC_Session (thread-safe variant of vlib.tlc_mc). Returns (ok, out)."""
    with _lock:
        d = ctx._spec_copy()
    rc, out, dt = ctx._tlc(d, "MC_Session.tla", cfg, [], timeout, workers)
    gen, dist, depth = ctx._parse_counts(out)
    ok = rc == 0 and "Model checking completed. No error has been found" in out
    with _lock:
        ctx.mc_runs.append({"module": "MC_Session", "cfg": cfg, "generated": gen, "distinct": dist, "depth": depth, "ok": ok, "wall_s": round(dt, 1)})
        ctx.cov["states"] += dist
        ctx.cov["transitions"] += gen
    vlib.log("TLC MC MC_Session/%s: %d generated, %d distinct, depth %d, %.1fs, ok=%s" % (cfg, gen, dist, depth, dt, ok))
    return ok, out


def design_level(ctx):
    # ---- 1. design level: the intended design keeps the invariants (MC_Session: 3 ids x 3 ports x 2 callers;
    #      MC_Session_leftover: one caller, every operation incl. damaged records and CleanDatabase; thorough: the same with
    #      2 callers), the as-is / sparse-write variants break them (required counterexamples)
    import concurrent.futures as cf
    leads = {}

    def positive(cfg):
        ok, out = mc_one(ctx, cfg, 4, 1500)
        if not ok:
            raise vlib.MachineryError("TLC model checking of MC_Session/%s failed (design-level spec error):\n%s" % (cfg, out[-5000:]))

    def lead(job):
        cfg, inv, what = job
        ok, out = mc_one(ctx, cfg, 2, 600)
        if ok or ("Invariant %s is violated" % inv) not in out:
            raise vlib.MachineryError("as-is model %s no longer violates %s - specification drifted:\n%s" % (cfg, inv, out[-1500:]))
        with _lock:
            leads[cfg[len("MC_Session_"):-len(".cfg")] + ":" + inv] = {"lead": what, "counterexample_states": len(re.findall(r"\nState \d+: ", out))}

    jobs = [(positive, "MC_Session.cfg"), (positive, "MC_Session_leftover.cfg"), (positive, "MC_Session_run.cfg")]
    if TRACKER_RACE:
        jobs.append((positive, "MC_Session_hold.cfg"))
    if not ctx.quick():
        jobs.append((positive, "MC_Session_full.cfg"))
    jobs += [(lead, j) for j in ASIS_LEADS if TRACKER_RACE or j[0] != "MC_Session_lostupdate.cfg"]
    with cf.ThreadPoolExecutor(max_workers=ctx.pick(2, 3)) as pool:
        list(pool.map(lambda j: j[0](j[1]), jobs))
    ctx.extra["asis_design_leads"] = leads



def implementation_level(ctx, fast):
    drv = ctx.build_go("c14")

    only = [x for x in os.environ.get("VERIF_C14_ONLY", "").split(",") if x]   # development / mutation runs
    if only:
        ctx.assumptions.append("VERIF_C14_ONLY=%s: reduced run" % ",".join(only))
    session_level(ctx, drv, fast, only)


def codec_level(ctx, drv):
    # ---- 2. codec
    # (thread-safe variant of vlib.tlc_gen: the design-level thread takes scratch copies of the specifications too)
    with _lock:
        d = ctx._spec_copy()
    rc, out, dt = ctx._tlc(d, "MC_Session_codec.tla", "MC_Session_codec.cfg", [], 300, 1)
    cases = []
    for line in out.splitlines():
        line = line.strip()
        if line.startswith('"@@'):
            try:
                cases.append(json.loads(json.loads(line)[2:]))
            except Exception:
                pass
    gen, dist, _ = ctx._parse_counts(out)
    vlib.log("TLC GEN MC_Session_codec: %d items, %d states, %.1fs rc=%d" % (len(cases), dist, dt, rc))
    with _lock:
        ctx.cov["states"] += dist
        ctx.cov["transitions"] += gen
    if len(cases) < 500:
        raise vlib.MachineryError("codec generator produced only %d cases" % len(cases))
    cp = ctx.path("codec_cases.ndjson")
    vlib.write_ndjson(cp, cases)
    ct = ctx.path("codec_trace.ndjson")
    ctx.run_drv(drv, ["codec", "-cases", cp, "-out", ct], timeout=300)
    judge(ctx, ct, "codec")



def session_level(ctx, drv, fast, only):
    # ---- 3. real session
    plan = [  # (index = seed offset, mode, n, ops/rounds, k); the long ones first: the short ones are recorded while TLC judges
        (1, "seq", 60 if fast else ctx.pick(200, 2500), 12, 1),
        (2, "burst", ctx.pick(30, 300), 3, 3),
        (0, "probe", ctx.pick(12, 24), 0, 1),      # incl. 4 x re-add over leftover records (6 classes of unloadable record each)
        (3, "burst", ctx.pick(6, 60), 2, 8),
        (4, "burst-sameid", ctx.pick(3, 8), 2, ctx.pick(4, 8)),
        (5, "race", ctx.pick(4, 12), 0, 2),           # gated RemoveTorrent(a) || AddTorrent(ID: a)
        (6, "race-add", ctx.pick(10, 40), 0, 3),      # gated AddTorrent(ID: a) || AddTorrent/AddURI(ID: a) (|| a third call)
        (7, "race-tracker", ctx.pick(18, 60), 0, 4),  # k x AddTracker(a) (|| AddTracker(b) / Start / Stop) queued behind a holder of the db writer lock
        (8, "race-readd", ctx.pick(48, 240), 0, 2),   # RemoveTorrent(a) of a RUNNING torrent || AddTorrent/AddURI(ID: a) repeated until it gets in
    ]
    q = queue.Queue()
    stop = threading.Event()

    def produce():
        try:
            for i, mode, n, ops, k in plan:
                if only and mode not in only:
                    continue
                if mode == "race-tracker" and not (TRACKER_RACE or "race-tracker" in only):
                    continue
                chunk = 400 if mode == "seq" else 60
                done = 0
                part = 0
                while done < n and not stop.is_set():
                    m = min(chunk, n - done)
                    tp = ctx.path("tr_%d_%s_%d.ndjson" % (i, mode, part))
                    # every chunk is its own seeded run of the driver (trace indices restart at 0: the seed makes them distinct)
                    ctx.run_drv(drv, ["run", "-mode", mode, "-seed", str(ctx.seed * 1000 + i * 100 + part), "-n", str(m), "-ops", str(ops),
                                      "-k", str(k), "-par", "8", "-out", tp], timeout=1500)
                    q.put((mode, tp, n > 60))
                    done += m
                    part += 1
            q.put(None)
        except BaseException as ex:
            q.put(ex)

    th = threading.Thread(target=produce)
    th.start()
    small = []
    try:
        if not only or "codec" in only:
            codec_level(ctx, drv)      # (while the first histories are being recorded)
        while True:
            item = q.get()
            if item is None:
                break
            if isinstance(item, BaseException):
                raise item
            mode, tp, big = item
            if big:
                judge(ctx, tp, mode)
            else:
                small.append(tp)       # few traces each: judged together (every TLC run costs a JVM start)
        if small:
            tp = ctx.path("tr_small.ndjson")
            with open(tp, "w") as out:
                for f in small:
                    shutil.copyfileobj(open(f), out)
            judge(ctx, tp, "probes+races")
    finally:
        stop.set()
        th.join()
    if only:
        return
    if ctx.extra.get("traces_abandoned_env", 0) * 10 > ctx.cov["evaluations"] - 1215:
        raise vlib.MachineryError("more than 10%% of the histories were abandoned for environment failures (%d)" % ctx.extra["traces_abandoned_env"])
    for tag in ("add.take-noport", "add.check-duplicate", "add.check-storage", "add.write-db-fault", "addmagnet.write-db-fault", "remove.dbdel-fault"):
        if ctx.obligation_counts.get("C14.leak." + tag, 0) == 0:
            raise vlib.MachineryError("failure point %s was never driven (vacuous run)" % tag)
    for cls in ("port", "ihash", "version", "toomany", "bitfield", "storage"):
        if ctx.obligation_counts.get("C14.record.readd_over_leftover." + cls, 0) == 0:
            raise vlib.MachineryError("no torrent was added over a leftover record of class %s (vacuous run)" % cls)
    if ctx.obligation_counts.get("C14.race_add.first_add_held_while_others_ran", 0) == 0:
        raise vlib.MachineryError("no gated history of concurrent adds with one id was recorded (vacuous run)")
    if ctx.obligation_counts.get("C14.race_readd.add_returned_during_remove", 0) == 0:
        raise vlib.MachineryError("no history in which an add of the id of a running torrent returned while its remove was in progress (vacuous run)")
    if TRACKER_RACE and ctx.obligation_counts.get("C14.race_tracker.queued_behind_writer", 0) == 0:
        raise vlib.MachineryError("no history with two AddTracker calls on one torrent queued behind the holder of the database's writer lock (vacuous run)")
    if ctx.obligation_counts.get("C14.obs", 0) == 0 or ctx.obligation_counts.get("C14.restart", 0) == 0:
        raise vlib.MachineryError("core obligations were never evaluated (vacuous run)")


# ------------------------------------------------------------------------------------------------- judging

def validate(ctx, trace_path, ntraces, timeout=1500):
    """Trace_Session run (local variant of vlib.tlc_validate): depth-first state queue, so that an accepted file costs about
    one state per line (the specification stops TLC at the first accepting interleaving); few GC / JIT threads, the run is
    short and single-threaded.  Returns dict(ok, viol=(line, tag)|None, soft=[(line, tag)], hwm, out)."""
    with _lock:
        _vn[0] += 1
        d = os.path.dirname(ctx.path("val%d" % _vn[0], "x"))
    for f in ("Session.tla", "Trace_Session.tla", "Trace_Session.cfg"):
        shutil.copy(os.path.join(vlib.VERIF, "spec", f), d)
    shutil.copy(trace_path, os.path.join(d, "trace.ndjson"))
    env = {"JAVA_TOOL_OPTIONS": "-Xss64m -XX:ParallelGCThreads=2 -XX:CICompilerCount=2 -Dtlc2.tool.queue.IStateQueue=StateDeque"}
    rc, out, dt = ctx._tlc(d, "Trace_Session.tla", "Trace_Session.cfg", [], timeout, 1, env)
    gen, dist, depth = ctx._parse_counts(out)
    with _lock:
        ctx.cov["states"] += dist
        ctx.cov["transitions"] += gen
    soft = sorted({(int(m.group(1)), m.group(2)) for m in re.finditer(r'@@SOFT (\d+) ([^"\s]+)', out)})
    mv = re.search(r'@@VIOL (\d+) ([^"\s]+)', out)
    mr = re.search(r"@@REJECT\s+(\d+)\s+(\d+)", out)
    ok = rc == 0 and "@@ACCEPT" in out and "No error has been found" in out and not mv and not mr
    if not ok and not mv and not mr:
        raise vlib.MachineryError("TLC trace validation crashed:\n%s" % out[-5000:])
    if ok:
        ctx.cov["traces_validated_against_impl"] += ntraces
    vlib.log("TLC VAL Trace_Session: ok=%s viol=%s soft=%d states=%d %.1fs" % (ok, mv.groups() if mv else None, len(soft), dist, dt))
    return {"ok": ok, "viol": (int(mv.group(1)), mv.group(2)) if mv else None, "soft": soft,
            "hwm": int(mr.group(1)) if mr else None, "out": out}


def split_traces(path):
    traces, cur = [], []
    for line in open(path):
        if '"op":"Init"' in line:
            if cur:
                traces.append(cur)
            cur = []
        cur.append(line)
    if cur:
        traces.append(cur)
    return traces


def history_class(evs, focus=None):
    """Class of a history, used in the violation signature: which calls overlapped on one id; whether the call under
    judgement (focus) gave a new owner to the id of a record that had failed to load."""
    open_calls = {}
    cls = set()
    for e in evs:
        if e["op"] == "call":
            for g, o in open_calls.items():
                if o.get("id") and o.get("id") == e.get("id"):
                    pair = tuple(sorted((o["name"], e["name"])))
                    if pair == ("Add", "Add") and o.get("r_res") == "ok" and e.get("r_res") == "ok":
                        cls.add("concurrent-add-same-id")
                    elif pair == ("Add", "Remove"):
                        cls.add("concurrent-remove-add-same-id")
                    elif "Remove" in pair and ("AddTracker" in pair):
                        cls.add("concurrent-remove-addtracker")
                    else:
                        cls.add("concurrent-" + "-".join(p.lower() for p in pair) + "-same-id")
            open_calls[e["g"]] = e
        elif e["op"] == "ret":
            open_calls.pop(e["g"], None)
    # a torrent added under the id of a record that failed to load (the bucket of the leftover is re-used)
    left = {}
    for e in evs:
        if e["op"] == "call" and e["name"] == "Reopen":
            for k, i in enumerate(e.get("corrupt", [])):
                left[i] = (e.get("cclass") or ["?"] * (k + 1))[k]
        elif e["op"] == "call" and e["name"] == "Add" and e.get("r_res") == "ok" and e.get("id") in left and (focus is None or e is focus):
            cls.add("readd-over-leftover(%s)" % left[e["id"]])
    names = [e.get("name") for e in evs if e["op"] == "call"]
    if "Clean" in names and any(e["op"] == "call" and e["name"] == "Add" and e.get("r_res") == "ok" and e.get("id") in
                                [c for x in evs if x["op"] == "call" and x["name"] == "Reopen" for c in x.get("corrupt", [])] for e in evs):
        cls.add("clean-after-invalid-record-readded")
    return "+".join(sorted(cls)) or "sequential"


def account(ctx, traces):
    for t in traces:
        evs = [json.loads(x) for x in t]
        calls = [e for e in evs if e["op"] == "call"]
        key = tuple((e["name"], "x" if len(e.get("id", "")) > 3 else e.get("id"), e.get("r_res")) for e in calls)
        if evs and evs[0].get("mode") == "codec":
            for e in evs[1:]:
                ctx.count_case(json.dumps(e.get("case"), sort_keys=True), True)
            ctx.oblig("C14.codec", len(evs) - 1)
            continue
        ctx.count_case(key, any(e["name"] == "Add" and e.get("r_res") == "ok" for e in calls))
        ctx.oblig("C14.obs", sum(1 for e in evs if e["op"] == "obs"))
        ctx.oblig("C14.add", sum(1 for e in calls if e["name"] == "Add"))
        ctx.oblig("C14.add.failing", sum(1 for e in calls if e["name"] == "Add" and e.get("r_res") != "ok"))
        # failure points of the multi-step operations (C14.leak): each must be driven, not only modelled
        for cls, tag in (("noport", "take-noport"), ("dup", "check-duplicate"), ("storage", "check-storage"), ("dbwrite", "write-db-fault")):
            ctx.oblig("C14.leak.add." + tag, sum(1 for e in calls if e["name"] == "Add" and e.get("r_res") == cls))
        ctx.oblig("C14.leak.addmagnet.write-db-fault", sum(1 for e in calls if e["name"] == "Add" and e.get("kind") == "magnet" and e.get("r_res") == "dbwrite"))
        ctx.oblig("C14.leak.remove.dbdel-fault", sum(1 for e in calls if e["name"] == "Remove" and e.get("dbfail")))
        ctx.oblig("C14.remove", sum(1 for e in calls if e["name"] == "Remove"))
        ctx.oblig("C14.restart", sum(1 for e in calls if e["name"] == "Reopen"))
        ctx.oblig("C14.compact", sum(1 for e in calls if e["name"] == "Compact"))
        ctx.oblig("C14.rpc", sum(1 for e in calls if e.get("rpc")))
        # leftover records (C14.record): adds whose id belongs to a record that failed to load, by class of failure
        left = {}
        for e in calls:
            if e["name"] == "Reopen":
                for k, i in enumerate(e.get("corrupt", [])):
                    left[i] = (e.get("cclass") or ["?"] * (k + 1))[k]
            elif e["name"] == "Add" and e.get("id") in left:
                if e.get("r_res") == "ok":
                    ctx.oblig("C14.record.readd_over_leftover." + left[e["id"]], 1)
                    ctx.oblig("C14.record.readd_over_leftover", 1)
                    del left[e["id"]]
        if evs and str(evs[0].get("mode", "")).startswith("race-add"):
            ctx.oblig("C14.race_add.histories", 1)
            # the gate worked: another call on the contested id began AND returned between call and ret of the first add
            first = next((k for k, e in enumerate(evs) if e["op"] == "call" and e["name"] == "Add" and e.get("g") == 2), None)
            if first is not None:
                ret = next((k for k in range(first, len(evs)) if evs[k]["op"] == "ret" and evs[k].get("g") == 2), len(evs))
                inner = [e for e in evs[first + 1:ret] if e["op"] == "ret" and e.get("g") != 2]
                if inner:
                    ctx.oblig("C14.race_add.first_add_held_while_others_ran", 1)
        if evs and str(evs[0].get("mode", "")).startswith("race-readd"):
            ctx.oblig("C14.race_readd.histories", 1)
            # the adder was in time: a call Add(a) returned (refused or not) between call and ret of the remove of the running torrent
            rc = next((k for k, e in enumerate(evs) if e["op"] == "call" and e["name"] == "Remove"), None)
            if rc is not None:
                rr = next((k for k in range(rc, len(evs)) if evs[k]["op"] == "ret" and evs[k].get("g") == evs[rc].get("g")), len(evs))
                inner = [e for e in evs[rc + 1:rr] if e["op"] == "ret" and e.get("g") != evs[rc].get("g")]
                if inner:
                    ctx.oblig("C14.race_readd.add_returned_during_remove", 1)
                if any(e.get("res") == "ok" for e in inner):
                    ctx.oblig("C14.race_readd.add_got_in_during_remove", 1)
        if evs and str(evs[0].get("mode", "")).startswith("race-tracker"):
            ctx.oblig("C14.race_tracker.histories", 1)
            # the gate worked: two or more AddTracker calls on one torrent were open, and none of them had returned "ok",
            # when the holder of the writer lock let go (they all ran back to back afterwards)
            for k, e in enumerate(evs):
                if e["op"] == "call" and e["name"] == "HoldDB":
                    ret = next((j for j in range(k, len(evs)) if evs[j]["op"] == "ret" and evs[j].get("g") == e.get("g")), len(evs))
                    inner = [x for x in evs[k + 1:ret] if x["op"] == "call" and x["name"] == "AddTracker" and x.get("valid") and x.get("r_res") == "ok"]
                    done = [x for x in evs[k + 1:ret] if x["op"] == "ret" and x.get("res") == "ok"]
                    per_id = {}
                    for x in inner:
                        per_id[x.get("id")] = per_id.get(x.get("id"), 0) + 1
                    if not done and per_id and max(per_id.values()) >= 2 and ret < len(evs) and evs[ret].get("queued", 0) >= evs[ret].get("expect", 1):
                        ctx.oblig("C14.race_tracker.queued_behind_writer", 1)
            ctx.oblig("C14.record.tracker-lost", sum(1 for k, e in enumerate(evs) if e["op"] == "obs" and
                                                      any(x["op"] == "call" and x["name"] == "AddTracker" and x.get("r_res") == "ok" for x in evs[:k])))
        if any(e.get("r_res") == "env" for e in calls):
            ctx.extra["traces_abandoned_env"] = ctx.extra.get("traces_abandoned_env", 0) + 1
        conc = 0
        open_n = 0
        for e in evs:
            if e["op"] == "call":
                open_n += 1
                conc = max(conc, open_n)
            elif e["op"] == "ret":
                open_n -= 1
        if conc > 1:
            ctx.oblig("C14.concurrent_histories", 1)
            ctx.extra["max_concurrency"] = max(ctx.extra.get("max_concurrency", 0), conc)


def report(ctx, trace, pos, tag, mode):
    evs = [json.loads(x) for x in trace]
    ev = evs[pos - 1] if 0 < pos <= len(evs) else {}
    mode = evs[0].get("mode", mode) if evs else mode
    # the call a quiescent observation belongs to is the last call before it
    last_call = {}
    for e in evs[:pos]:
        if e["op"] == "call":
            last_call = e
    cls = history_class(evs[:pos], last_call)
    if ev.get("op") == "Codec":
        case = ev.get("case", {})
        dev = ",".join("%s=%s" % (k, v) for k, v in sorted(case.items()) if v not in (0, False))
        # invalid UTF-8 classes of harness/c14/codec.go: trk=6, url=4, fp=4, name=3
        bad_utf8 = case.get("trk") == 6 or case.get("url") == 4 or case.get("fp") == 4 or case.get("name") == 3
        fields = sorted(set(ev.get("neq", []) + ev.get("oneq", []) + ev.get("jneq", []) + [x.split(":")[0] for x in ev.get("pneq", [])]))
        sig = "tag=%s codec cause=%s fields=%s err=%s" % (tag, "invalid-utf8" if bad_utf8 else "other", ",".join(fields), ev.get("err", "")[:60])
        what = "resume record with %s does not read back equal (%s)" % (dev or "all defaults", tag)
        if sig in ctx.extra.setdefault("codec_signature_counts", {}):
            ctx.extra["codec_signature_counts"][sig] += 1
            return False
        ctx.extra["codec_signature_counts"][sig] = 1
    else:
        sig = "tag=%s class=%s op=%s res=%s" % (tag, cls, last_call.get("name"), last_call.get("r_res"))
        if ev.get("op") == "crash":
            sig += " site=%s" % ev.get("site")
        what = "%s at event %d (%s) of a %s history [%s]: last call %s(%s) -> %s" % (
            tag, pos, ev.get("op"), mode, cls, last_call.get("name"), last_call.get("id"), last_call.get("r_res"))
    slim = []
    for e in evs[:pos]:
        if e["op"] == "obs":
            slim.append({"op": "obs", "live": [(o["id"], o["port"]) for o in e["live"]], "avail": e["avail"],
                         "db": [(o["id"], o["port"], o["started"]) for o in e["db"]], "invalid": e["invalid"]})
        else:
            slim.append({k: v for k, v in e.items() if k not in ("st", "loaded")})
    return ctx.violation(tag, sig, what, {"history": slim[-60:], "event": ev if ev.get("op") != "obs" else slim[-1]})


def judge(ctx, tp, mode):
    traces = split_traces(tp)
    account(ctx, traces)
    if traces:
        ctx.sample({"mode": mode, "trace_prefix": [{k: v for k, v in json.loads(x).items() if k in
                    ("op", "g", "name", "id", "r_res", "r_port", "avail", "mode")} for x in traces[0][:10]]})
    remaining = traces
    unlisted = 0
    for attempt in range(40):
        if not remaining:
            return
        cur = ctx.path("cur.ndjson")
        with open(cur, "w") as fh:
            for t in remaining:
                fh.writelines(t)
        res = validate(ctx, cur, len(remaining))

        def locate(line):
            n = 0
            for i, t in enumerate(remaining):
                if n + len(t) >= line:
                    return i, line - n
                n += len(t)
            return len(remaining) - 1, len(remaining[-1])

        vline = res["viol"][0] if res["viol"] else None
        for line, tag in res["soft"]:
            if vline is not None and line > vline:
                continue
            i, pos = locate(line)
            report(ctx, remaining[i], pos, tag, mode)
        if res["ok"]:
            return
        if not res["viol"]:
            raise vlib.MachineryError("trace not explained by the specification near line %s of %s — driver/spec mismatch, not a verdict\n%s"
                                      % (res["hwm"], tp, res["out"][-2500:]))
        vline, tag = res["viol"]
        i, pos = locate(vline)
        if report(ctx, remaining[i], pos, tag, mode):
            unlisted += 1
            if unlisted >= 3:      # enough evidence from this file; every further violating history costs one more TLC run
                vlib.log("3 unlisted violations in %s: the rest of the file is not judged" % os.path.basename(tp))
                return
        ctx.cov["traces_validated_against_impl"] += i      # the traces before the violating one were accepted
        remaining = remaining[i + 1:]
    raise vlib.MachineryError("too many violating traces in %s" % tp)


# ------------------------------------------------------------------------------------------------- binding demonstration

def selftest(ctx):
    """Corrupt one recorded field of an accepted trace and require the rejection (BUILDING.md rule 6)."""
    drv = ctx.build_go("c14")
    tp = ctx.path("st.ndjson")
    ctx.run_drv(drv, ["run", "-mode", "probe", "-seed", str(ctx.seed), "-n", "9", "-ops", "0", "-k", "1", "-par", "3", "-out", tp], timeout=300)
    traces = split_traces(tp)
    base = traces[5]          # restart-full: accepted on the unchanged tree
    ok = validate(ctx, _write(ctx, base), 1)
    if not ok["ok"]:
        raise vlib.MachineryError("selftest base trace is not accepted")
    muts = []

    def mutate(fn, expect):
        evs = [json.loads(x) for x in base]
        fn(evs)
        res = validate(ctx, _write(ctx, [json.dumps(e) + "\n" for e in evs]), 0)
        got = res["viol"][1] if res["viol"] else None
        muts.append({"expect": expect, "got": got})
        if got is None or not got.startswith(expect):
            raise vlib.MachineryError("selftest: corrupted trace was not rejected as %s (got %s)" % (expect, got))

    def last_obs(evs):
        return [e for e in evs if e["op"] == "obs"][-1]

    def first_obs_with_live(evs):
        return [e for e in evs if e["op"] == "obs" and e["live"]][0]

    mutate(lambda evs: first_obs_with_live(evs)["avail"].pop(), "C14.ports")
    mutate(lambda evs: last_obs(evs)["live"][0].__setitem__("name", "other"), "C14.restart.live")
    mutate(lambda evs: last_obs(evs)["db"].pop(), "C14.db")
    mutate(lambda evs: last_obs(evs)["live"][1].__setitem__("cnt", ["0", "0", "0", "0"]), "C14.restart.live")
    # re-add over leftover records: the record of a new owner that was never started shows a bitfield / an info dictionary
    base = traces[8]
    if not validate(ctx, _write(ctx, base), 1)["ok"]:
        raise vlib.MachineryError("selftest base trace (readd-over-leftover) is not accepted")

    def stopped_rec(evs, want_meta):
        o = last_obs(evs)
        return [r for r in o["db"] if not r["started"] and r["bf"] == "" and r["meta"] == want_meta][0]

    mutate(lambda evs: stopped_rec(evs, True).__setitem__("bf", "e0"), "C14.record.inherited-bitfield")
    mutate(lambda evs: stopped_rec(evs, False).__setitem__("meta", True), "C14.record.inherited-info")
    ctx.extra["selftest"] = muts
    ctx.oblig("C14.selftest", len(muts))


def _write(ctx, lines):
    p = ctx.path("sel.ndjson")
    with open(p, "w") as fh:
        fh.writelines(lines)
    return p
