"""C08 - untrusted peer input (spec/PeerInput.tla, MC_PeerInput*, Trace_PeerInput; driver harness/c08).

1. design level (TLC exhaustive): PeerInput with the replay-stops-at-closed-peer design satisfies Inv + isolation for every
   interleaving of <= K message classes with the torrent life cycle and with the request-timeout timer of a peer we download
   from (environment actions TimerFire / SnubDeliver racing with choke / unchoke / disconnect); two variants must yield a
   counterexample, each exported as a directed scenario (lead) for the driver: cfg.asis (today's replay rule) and
   cfg.guard = FALSE (a loop that does not ignore a stale timer event: MC_PeerInput_race); round 3: allowed-fast downloads
   (a peer that grants allowed-fast pieces is downloaded from while it chokes; choke must not park that download, unchoke
   re-requests, a block re-arms the timer: MC_PeerInput_af) with the variant cfg.afpark = TRUE (the choke handler parks it,
   the unchoke handler does not unpark it: MC_PeerInput_afpark) as a third lead.
2. TLC as generator (-simulate on MC_PeerInputGen) of attack scenarios: label (torrent state), attackers, (peer, class) list
   with timer steps (@fire / @snub / @disconnect) where the model enables them; the alphabet contains the generated ut_pex
   families (every list length 0..100 of added / added.f / dropped / added6 / dropped6; repeated addresses in and across lists).
   Directed families on top: timer histories (injected hand-over and real-time sweeps around the expiry), length sweeps of
   every ut_pex list, all repeat patterns (in batches and alone) - rain dials the addresses it is told in between.
3. driver: reader level (real peerreader over net.Pipe: deliveries, end state, allocation of one frame) and session level
   (real torrent.Session in child processes, attackers + one honest peer; crash / hang become Proc events).
4. TLC as judge (Trace_PeerInput) of everything recorded.
"""
import json, os, random, re, threading
import vlib

STATES = ["meta", "alloc", "verify", "down", "seed", "stopping"]
# round 3 (allowed-fast downloads: class allowedfast.all, generator role afsource, MC_PeerInput_af / _afpark, directed timer
# histories). Built and tried on the seeded and the unchanged tree, but not yet proven quiet by a full run of the check on
# the unchanged tree (machine load): OFF by default, enable with VERIF_C08_AF=1.
AF = os.environ.get("VERIF_C08_AF", "") == "1"
BIG = 2 ** 31


def run(ctx):
    ctx.level = "model_checking"
    ctx.cov["rule"] = ("one case = one attack scenario (torrent state x message-class sequence of 1..3 attackers, incl. byte-level "
                       "mutations) replayed against a real Session, or one byte stream fed to the real peerreader; non-trivial = "
                       "contains at least one class that is not benign in that state; distinct = distinct (state, sequence)")
    ctx.assumptions += [
        "message classes (kind x field class) partition the input space; inside a class one representative encoding is used, "
        "plus seeded byte-level mutations (truncate / flip / splice) of the encodings",
        "maximum message size = Config.MaxMetadataSize (the value rain passes to the reader): 64 KiB at session level, 32/64 KiB at reader level; slack 64 KiB",
        "allocating / verifying states are reached through a magnet link (the only path with an open acceptor in those states)",
        "a blocked loop is reported when Torrent.Stats() does not answer twice within 3 s and the loop goroutine is parked in a rain frame",
        "request-timeout timer: the hand-over of a fired timer event from peer.Run to the loop (peerSnubbedC) is performed by the driver "
        "(overlay shim VerifC08Snub, only for a peer rain has sent a request to, i.e. whose timer has been armed) so that it can be placed "
        "after later messages of the same peer (stale event); the real-time sweeps (silence until RequestTimeout -+ delta, RequestTimeout = 1 s) "
        "exercise the real timer but cannot be expected to hit the few-instruction window between a Choke being taken and the timer being stopped",
        "ut_pex lists name loopback addresses nobody listens on (127.0.7.x / 127.0.8.x port 1): rain's dials are refused at once; "
        "MaxPeerDial is the default (80), so queued addresses are popped for dialling inside the same handler",
    ]
    lock = threading.Lock()
    orig_copy = ctx._spec_copy

    def locked_copy():
        with lock:
            return orig_copy()
    ctx._spec_copy = locked_copy

    # ---- 1. design level, in the background (the machine is shared): first the as-is variant (its counterexample
    #         becomes a directed scenario), then the design configurations
    mc_err = []
    box = {}
    asis_done = threading.Event()
    race_done = threading.Event()

    def race_side():
        # the loop without the stale-timer rule must FAIL (its counterexample is a directed scenario); then the timer design
        try:
            box["race"] = ctx.tlc_mc("MC_PeerInput", "MC_PeerInput_race.cfg", timeout=900, workers=2, expect_ok=False)
            if AF:
                box["afpark"] = ctx.tlc_mc("MC_PeerInput", "MC_PeerInput_afpark.cfg", timeout=900, workers=2, expect_ok=False)
            race_done.set()
            ctx.tlc_mc("MC_PeerInput", "MC_PeerInput_timer.cfg", timeout=900, workers=3)
            if AF:
                ctx.tlc_mc("MC_PeerInput", "MC_PeerInput_af.cfg", timeout=900, workers=3)
                if not ctx.quick():
                    ctx.tlc_mc("MC_PeerInput", "MC_PeerInput_af7.cfg", timeout=1800, workers=4)
            if not ctx.quick():
                ctx.tlc_mc("MC_PeerInput", "MC_PeerInput_timer6.cfg", timeout=1800, workers=4)
        except Exception as ex:  # noqa
            mc_err.append(ex)
        finally:
            race_done.set()

    def mc():
        t2 = threading.Thread(target=race_side)
        t2.start()
        try:
            try:
                box["asis"] = ctx.tlc_mc("MC_PeerInput", "MC_PeerInput_asis.cfg", timeout=900, workers=3, expect_ok=False)
            finally:
                asis_done.set()
            ctx.tlc_mc("MC_PeerInput", "MC_PeerInput.cfg", timeout=900, workers=4)
            if not ctx.quick():
                ctx.tlc_mc("MC_PeerInput", "MC_PeerInput_full2.cfg", timeout=1200, workers=4)
                ctx.tlc_mc("MC_PeerInput", "MC_PeerInput_k3p2.cfg", timeout=2400, workers=6)
        except Exception as ex:  # noqa
            mc_err.append(ex)
        finally:
            t2.join()
    th = threading.Thread(target=mc)
    th.start()

    def lead_of():
        asis_done.wait()
        race_done.wait()
        if "asis" not in box or "race" not in box or (AF and "afpark" not in box):
            raise mc_err[0] if mc_err else vlib.MachineryError("as-is / race model check did not run")
        return (parse_lead(ctx, "asis_lead", *box["asis"]), parse_lead(ctx, "race_lead", *box["race"], keep=("@fire", "@snub", "@disconnect")),
                parse_lead(ctx, "afpark_lead", *box["afpark"], keep=("@fire", "@snub", "@disconnect")) if AF else None)
    try:
        body(ctx, lead_of)
    finally:
        th.join()
    if mc_err:
        raise mc_err[0]


def parse_lead(ctx, name, ok, out, keep=()):
    """A variant model that must fail (as-is replay rule / loop without the stale-timer rule): its counterexample
    becomes a directed scenario."""
    if ok:
        raise vlib.MachineryError("the %s variant model has no counterexample (spec no longer describes the lead)" % name)
    mi = re.search(r"Invariant (\S+) is violated", out)
    if not mi:
        raise vlib.MachineryError("as-is model check failed for another reason:\n" + out[-3000:])
    blocks = re.split(r"\nState \d+: ", out)
    lead = None
    if len(blocks) > 1:
        st0 = re.search(r'/\\ ts = "(\w+)"', blocks[1])
        hs = re.findall(r'\[pe \|-> (\d+), cls \|-> "([^"]+)"\]', blocks[-1].split("/\\ h = ")[1].split("/\\ loop")[0])
        if st0 and hs:
            lead = {"lab": st0.group(1), "npe": 1, "h": [{"pe": int(p), "cls": c} for p, c in hs if not c.startswith("@") or c in keep]}
            ctx.extra[name] = {"state": st0.group(1), "h": ["%s:%s" % (p, c) for p, c in hs], "invariant": mi.group(1)}
    if not lead or not lead["h"]:
        raise vlib.MachineryError("cannot parse the %s counterexample:\n" % name + out[-3000:])
    return lead


def body(ctx, lead_of):
    rng = random.Random(ctx.seed)
    drv = ctx.build_go("c08")

    # ---- 2a. TLC as generator (the same run prints the alphabet with the design verdicts: spec side and driver side must agree)
    ngen = ctx.pick(220, 1900)
    gen, _ = ctx.tlc_gen("MC_PeerInputGen", "MC_PeerInputGen.cfg", simulate=ngen, depth=30, timeout=1200)
    hdr = [x for x in gen if "classes" in x]
    if not hdr:
        raise vlib.MachineryError("no class header from MC_PeerInputGen")
    verd = hdr[0]["classes"]
    r = ctx.run_drv(drv, ["classes"])
    drv_classes = set(json.loads(r.stdout))
    if drv_classes != set(verd.keys()):
        raise vlib.MachineryError("class alphabets differ: only spec %s / only driver %s" %
                                  (sorted(set(verd) - drv_classes), sorted(drv_classes - set(verd))))
    allcls = sorted(verd.keys())
    fam_len = [c for c in allcls if c.startswith("ext.pex.len.")]      # generated ut_pex families (PeerInput.tla PexLenK / PexRepK)
    fam_rep = [c for c in allcls if c.startswith("ext.pex.rep.")]
    classes = [c for c in allcls if c not in set(fam_len) | set(fam_rep)]   # the hand-written alphabet
    if not AF:
        classes = [c for c in classes if c != "allowedfast.all"]
    if len(fam_len) != 5 * 101 or len(fam_rep) != 90:
        raise vlib.MachineryError("ut_pex families: %d length classes, %d repeat classes" % (len(fam_len), len(fam_rep)))
    lead, race, afpark = lead_of()
    if not any(m["cls"] == "@snub" for m in race["h"]):
        raise vlib.MachineryError("the race counterexample does not deliver a timer event: %s" % race)
    afc = [m["cls"] for m in afpark["h"]] if AF else []
    if AF and not ("@snub" in afc and "choke" in afc and any(c.startswith("allowedfast.") for c in afc)):
        raise vlib.MachineryError("the afpark counterexample is not an allowed-fast download hit by choke + timer event: %s" % afpark)

    # ---- 2. scenarios
    gen = [g for g in gen if "h" in g and g["h"]]
    if not AF:
        gen = [g for g in gen if g.get("role") != "afsource" and not any(m["cls"] == "allowedfast.all" for m in g["h"])]
    seen, scen = set(), []

    def add(lab, npe, h, kind):
        key = (lab, tuple((m["pe"], m["cls"]) for m in h))
        if key in seen or not h:
            return
        seen.add(key)
        scen.append({"lab": lab, "npe": npe, "h": h, "kind": kind})

    add(lead["lab"], lead["npe"], lead["h"], "lead")
    # the same lead in the other two queueing states (the model says they are equivalent; check on the code)
    for st in ("meta", "alloc", "verify"):
        add(st, 1, lead["h"], "lead")
    # protocol-depth templates: bring the attacker into a role first (metadata source / piece source), then every class
    # whose handling depends on that role (info downloader / piece downloader present)
    meta_src = [c for c in classes if c in ("ext.hs.ok", "ext.hs.wrongsize", "ext.hs.atmax", "ext.hs.negreqq", "ext.hs.hugereqq")]
    meta_dep = [c for c in classes if c.startswith("ext.meta.")]
    for a in meta_src:
        for b in meta_dep:
            add("meta", 1, [{"pe": 1, "cls": a}, {"pe": 1, "cls": b}], "tmpl")
    piece_dep = [c for c in classes if c.startswith(("piece.", "reject.", "choke", "have.oob", "cancel."))]
    for st in ("down", "verify"):
        for b in piece_dep:
            add(st, 1, [{"pe": 1, "cls": "unchoke"}, {"pe": 1, "cls": "bitfield.full"}, {"pe": 1, "cls": b}, {"pe": 1, "cls": b}], "tmpl")
    # ---- request-timeout timer as environment (design: TimerFire / SnubDeliver racing with choke / unchoke / disconnect)
    def M(*cs, pe=1):
        return [{"pe": pe, "cls": c} for c in cs]
    add(race["lab"], race["npe"], race["h"], "lead")                  # the counterexample of the loop without the stale-timer rule
    add("stopping", 1, race["h"], "lead")
    for src in ("bitfield.full", "haveall", "have.last"):
        add("down", 1, M(src, "unchoke", "@fire", "choke", "@snub"), "timer")
        add("down", 1, M(src, "unchoke", "@fire", "choke", "unchoke", "@snub", "choke"), "timer")
        add("down", 1, M(src, "unchoke", "@fire", "choke", "@snub", "unchoke", "@fire", "@snub", "choke", "unchoke"), "timer")
        add("down", 1, M("unchoke", src, "@fire", "choke", "@disconnect", "@snub"), "timer")
    add("down", 1, M("allowedfast.in0", "bitfield.full", "@fire", "choke", "@snub", "unchoke"), "timer")      # allowed-fast download while choked
    # ---- allowed-fast downloads (round 3): every piece granted, so whatever rain picks from the (still choking) attacker is an
    #      allowed-fast download; choke / unchoke around it, a block of it (piece.alljunk: block 0 of every piece) re-arms the
    #      real timer, then silence until it expires (@wait / @at) or the injected hand-over (@fire .. @snub)
    if AF:
        add(afpark["lab"], afpark["npe"], afpark["h"], "lead")         # the counterexample of the choke handler that parks such a download
        add("stopping", 1, afpark["h"], "lead")
        for src in ("bitfield.full", "haveall"):
            add("down", 1, M("allowedfast.all", src, "choke", "unchoke", "piece.alljunk", "@wait"), "timer")
            add("down", 1, M("allowedfast.all", src, "@fire", "choke", "unchoke", "@snub", "choke", "unchoke"), "timer")
        add("down", 1, M("allowedfast.all", "bitfield.full", "unchoke", "choke", "piece.alljunk", "@wait", "unchoke"), "timer")
        add("down", 1, M("allowedfast.all", "bitfield.full", "choke", "@wait", "unchoke", "piece.alljunk", "@wait", "choke"), "timer")
        add("down", 1, M("allowedfast.all", "bitfield.full", "@fire", "choke", "@snub", "unchoke", "piece.alljunk", "@fire", "choke", "unchoke", "@snub"), "timer")
        add("down", 1, M("unchoke", "allowedfast.all", "bitfield.full", "choke", "unchoke", "piece.alljunk", "@wait", "choke", "unchoke"), "timer")
        add("down", 2, M("allowedfast.all", "bitfield.full", "choke", "unchoke", "piece.alljunk") + M("allowedfast.all", "haveall", "@fire", "choke", "unchoke", pe=2)
            + M("@wait") + M("@snub", pe=2), "timer")
        aoffs = [-400, -50, 0, 50, 400, 3000]
        rng.shuffle(aoffs)
        for k, us in enumerate(aoffs[:ctx.pick(2, len(aoffs))]):
            tail = [("choke", "unchoke"), ("unchoke", "choke"), ("choke", "unchoke", "piece.alljunk", "@wait")][k % 3]
            add("down", 1, M("allowedfast.all", "bitfield.full", "choke", "unchoke", "piece.alljunk", "@at:%d" % us, *tail), "timer")
    add("down", 1, M("bitfield.full", "unchoke", "@fire", "piece.unreq", "@snub", "choke"), "timer")
    add("down", 1, M("bitfield.full", "unchoke", "@fire", "reject.all", "@snub", "choke"), "timer")
    add("down", 2, M("bitfield.full", "unchoke", "@fire", "choke") + M("bitfield.full", "unchoke", "@fire", pe=2) + M("@snub") + M("choke", "@snub", pe=2), "timer")
    add("meta", 1, M("ext.hs.ok", "@fire", "ext.meta.reject", "@snub"), "timer")         # the same timer guards metadata requests
    add("meta", 1, M("ext.hs.ok", "@fire", "ext.meta.datajunk", "@snub", "ext.meta.reject"), "timer")
    add("meta", 1, M("ext.hs.ok", "@wait", "ext.meta.reject"), "timer")
    # real time: the peer is silent until RequestTimeout -+ delta and chokes / unchokes / goes away right then
    offs = [-3000, -1500, -800, -400, -200, -100, -50, 0, 50, 100, 200, 400, 800, 1500, 3000, 10000]
    rng.shuffle(offs)
    for k, us in enumerate(offs[:ctx.pick(5, len(offs))]):
        tail = [("choke",), ("choke", "unchoke"), ("@disconnect",), ("choke", "@wait", "unchoke"), ("unchoke", "choke")][k % 5]
        add("down", 1, M("bitfield.full", "unchoke", "@at:%d" % us, *tail), "timer")
    add("down", 1, M("bitfield.full", "unchoke", "@wait", "choke", "unchoke", "@wait", "choke"), "timer")
    # ---- ut_pex payloads: every length 0..100 of every list (whole entries + a partial one), repeated addresses inside one
    #      list / in both lists / across messages; rain dials what it is told (nobody listens there) in between
    pex_states = ["down", "meta", "verify", "alloc", "stopping"]
    for k, f in enumerate(("added", "addedf", "dropped", "added6", "dropped6")):
        own = sorted((c for c in fam_len if c.startswith("ext.pex.len.%s." % f)), key=lambda c: int(c.rsplit(".", 1)[1]))
        sts = pex_states if not ctx.quick() else (["down"] if f in ("addedf", "added6", "dropped6") else ["down", pex_states[1 + (ctx.seed + k) % 4]])
        for st in sts:
            add(st, 1, M(*own), "pex")
        desc = list(reversed(own))
        add("down", 2, [m for a, b in zip(own[::2], desc[::2]) for m in (M(a)[0], M(b, pe=2)[0])], "pex")
    reps = list(fam_rep)
    rng.shuffle(reps)
    nrep = 9
    for k in range(0, len(reps), nrep):
        chunk = reps[k:k + nrep]
        add(pex_states[(k // nrep) % (2 if ctx.quick() else 5)], 1, M(*chunk), "pex")
        if not ctx.quick():
            add("down", 1, M(*reversed(chunk)), "pex")
    for c in sorted(fam_rep):                                          # one list of a fresh queue: every pattern once on its own
        if ctx.quick() and rng.randrange(3):
            continue
        add("down", 1, M(c, "ext.pex.ok"), "pex")
    singles = [(st, c) for st in STATES for c in classes]
    rng.shuffle(singles)
    for st, c in singles[:ctx.pick(90, len(singles))]:
        add(st, 1, [{"pe": 1, "cls": c}], "single")
    for g in gen:
        add(g["lab"], g["npe"], g["h"], "gen")
    # byte-level mutations of one message of a generated sequence
    nmut = ctx.pick(50, 500)
    pool = [s for s in scen if s["kind"] == "gen"]
    for i in range(nmut):
        if not pool:
            break
        s = rng.choice(pool)
        h = [dict(m) for m in s["h"]]
        idx = [k for k, m in enumerate(h) if not m["cls"].startswith("@")]
        if not idx:
            continue
        k = rng.choice(idx)
        h[k]["cls"] = "mut:%s:%d:%s" % (rng.choice(["trunc", "flip", "splice"]), rng.randrange(1, 4000), h[k]["cls"])
        h = [m for m in h if m["cls"] in ("@stop", "@disconnect") or not m["cls"].startswith("@")]   # framing lost: no barrier for timer steps
        add(s["lab"], s["npe"], h, "mut")
    scenarios = []
    for i, s in enumerate(scen):
        msgs, split = [], -1
        for m in s["h"]:
            if m["cls"] == "@stop":
                split = len(msgs)
            elif m["cls"].startswith("@") and m["pe"] < 1:
                continue
            else:
                msgs.append({"pe": m["pe"], "cls": m["cls"]})
        if s["lab"] == "stopping" and split < 0:
            split = len(msgs)
        npe = s["npe"]
        hs0 = []
        for p in range(1, npe + 1):
            own = [m["cls"] for m in msgs if m["pe"] == p]
            if not any(c.startswith("ext.hs.") or ":ext.hs." in c for c in own):
                hs0.append(p)     # no extension handshake under test on this peer: the ping barrier can be used
        scenarios.append({"id": i, "st": s["lab"], "npe": npe, "hs0": hs0, "msgs": msgs, "split": max(split, 0), "kind": s["kind"]})
    vlib.log("scenarios: %d (%s)" % (len(scenarios), ", ".join("%s=%d" % (k, sum(1 for s in scenarios if s["kind"] == k))
                                                                 for k in ("lead", "tmpl", "timer", "pex", "single", "gen", "mut"))))
    ctx.extra["session_scenarios_by_kind"] = {k: sum(1 for s in scenarios if s["kind"] == k) for k in ("lead", "tmpl", "timer", "pex", "single", "gen", "mut")}
    ctx.extra["session_timer_steps"] = {k: sum(1 for s in scenarios for m in s["msgs"] if m["cls"].split(":")[0] == k)
                                        for k in ("@fire", "@snub", "@wait", "@at", "@disconnect")}
    ctx.extra["session_pex_family_classes_used"] = len(set(m["cls"] for s in scenarios for m in s["msgs"] if m["cls"].startswith(("ext.pex.len.", "ext.pex.rep."))))

    # ---- 3a. reader level
    streams = []
    for mm in (32768, 65536):
        for c in classes:
            streams.append({"seq": [c], "maxmsg": mm, "frag": 0})
            streams.append({"seq": [c], "maxmsg": mm, "frag": rng.randrange(1, 1 << 30)})
    fam = fam_len + fam_rep
    for c in (rng.sample(fam, 60) if ctx.quick() else fam):        # generated families: the delivered list lengths must be exact
        streams.append({"seq": [c], "maxmsg": rng.choice((32768, 65536)), "frag": rng.randrange(0, 1 << 30)})
    nstreams = ctx.pick(400, 4000)
    per_peer = []
    for s in scenarios:
        for p in range(1, s["npe"] + 1):
            q = [m["cls"] for m in s["msgs"] if m["pe"] == p and not m["cls"].startswith("@")]
            if len(q) >= 2:
                per_peer.append(q)
    rng.shuffle(per_peer)
    for q in per_peer[:nstreams]:
        streams.append({"seq": q[:6], "maxmsg": rng.choice((32768, 65536)), "frag": rng.randrange(0, 1 << 30)})
    # single-frame classes only (an "all" class is one frame per piece)
    alloc_classes = [c for c in classes if c.startswith(("oversize.", "bitfield.", "piece.", "ext.hs.", "trunc.bitfield", "unknown."))
                     and ".all" not in c]
    rin = ctx.path("reader_in.json")
    with open(rin, "w") as fh:
        json.dump({"n": 12, "streams": streams, "alloc": alloc_classes, "allocmax": [32768, 65536]}, fh)
    rout = ctx.path("reader.ndjson")
    ctx.run_drv(drv, ["reader", "-in", rin, "-out", rout, "-seed", str(ctx.seed)], timeout=900)
    rlines, rreport = judge_reader(ctx, rout, streams, verd)

    # ---- 3b. session level
    sin = ctx.path("session_in.json")
    with open(sin, "w") as fh:
        json.dump({"scenarios": scenarios}, fh)
    sout = ctx.path("session.ndjson")
    sdir = ctx.path("sess", "x")
    ctx.run_drv(drv, ["session", "-in", sin, "-out", sout, "-dir", os.path.dirname(sdir), "-workers", str(ctx.pick(8, 12))],
                timeout=ctx.pick(900, 3000))
    slines, sreport = judge_session(ctx, sout, scenarios, verd)

    # ---- 4. one TLC run judges everything that was recorded
    done = set()
    for owner, ln, tag, ev in tlc_judge(ctx, rlines + slines, "clean.ndjson"):
        if (owner, tag) in done:
            continue
        done.add((owner, tag))
        (rreport if isinstance(owner, tuple) else sreport)(owner, tag, ev)


# ------------------------------------------------------------------------------------------------ judging

def norm_int(v):
    if isinstance(v, bool) or not isinstance(v, int):
        return v
    if v >= BIG:
        return -1 if v == 2 ** 32 - 1 else -2
    return v


def tlc_judge(ctx, lines, name):
    """lines: list of (owner, event dict). Returns list of (owner, lineno, tag, event)."""
    if not lines:
        return []
    p = ctx.path(name)
    vlib.write_ndjson(p, [e for _, e in lines])
    nown = len(set(o for o, _ in lines))
    res = ctx.tlc_validate("Trace_PeerInput", p, ntraces=nown, timeout=1800, heap="4g")
    if not res["ok"]:
        hw = res["hwm"]
        bad = lines[hw][1] if hw is not None and hw < len(lines) else None
        raise vlib.MachineryError("trace %s not explained by Trace_PeerInput at line %s (%s) - driver/spec mismatch, not a verdict\n%s"
                                  % (name, hw, json.dumps(bad)[:300], res["out"][-2500:]))
    out = []
    for m in re.finditer(r'@@VIOL (\d+) (\S+?)"?\s*$', res["out"], re.M):
        ln, tag = int(m.group(1)), m.group(2).rstrip('"')
        out.append((lines[ln - 1][0], ln, tag, lines[ln - 1][1]))
    return out


def judge_reader(ctx, path, streams, verd):
    evs = vlib.read_ndjson(path)
    lines, owner, si = [], None, -1
    allocs = []
    for e in evs:
        op = e["op"]
        if op == "RAlloc":
            d = min(int(e["delta"]), BIG - 1)
            allocs.append((e["cls"], e["maxmsg"], int(e["delta"])))
            lines.append((("alloc", e["cls"], e["maxmsg"]), {"op": "RAlloc", "cls": e["cls"], "maxmsg": e["maxmsg"], "delta": d, "panic": e["panic"]}))
            ctx.oblig("C08.alloc")
            continue
        if op == "RInit":
            si += 1
            owner = ("stream", si)
            lines.append((owner, {"op": "RInit", "n": e["n"], "maxmsg": e["maxmsg"]}))
        elif op == "RFeed":
            lines.append((owner, {"op": "RFeed", "cls": e["cls"]}))
        elif op == "RGot":
            lines.append((owner, {"op": "RGot", "kind": e["kind"], "a": norm_int(e["a"]), "b": norm_int(e["b"]), "c": norm_int(e["c"]), "dl": norm_int(e["dl"])}))
        elif op == "REnd":
            lines.append((owner, {"op": "REnd", "st": e["st"], "sentinel": e["sentinel"], "panic": e["panic"]}))
            ctx.oblig("C08.reader")
            if e["panic"]:
                ctx.oblig("C08.crash")
    if si + 1 != len(streams):
        raise vlib.MachineryError("reader driver returned %d streams, expected %d" % (si + 1, len(streams)))
    for i, s in enumerate(streams):
        ctx.count_case(("reader", tuple(s["seq"]), s["maxmsg"], s["frag"] != 0),
                       any(not verd.get(c, {"benign": {"down": False}})["benign"]["down"] for c in s["seq"]))
    if allocs:
        worst = max(allocs, key=lambda a: a[2] - a[1])
        ctx.extra["reader_alloc_worst"] = {"cls": worst[0], "maxmsg": worst[1], "delta": worst[2]}
        ctx.extra["reader_alloc_oversize"] = {c: d for c, m, d in allocs if c.startswith("oversize.") and m == 65536}
    ctx.sample({"reader_stream": streams[len(streams) // 2]})

    def report(owner, tag, ev):
        obl, _, kind = tag.partition("/")
        if owner[0] == "alloc":
            sig = "tag=%s level=reader cls=%s maxmsg=%d" % (tag, owner[1], owner[2])
            det = {"event": ev, "raw": [a for a in allocs if a[0] == owner[1]]}
            what = "one %s frame made the reader allocate %s bytes (max message size %d)" % (owner[1], ev.get("delta"), owner[2])
        else:
            s = streams[owner[1]]
            sig = "tag=%s level=reader seq=%s frag=%d" % (tag, ",".join(s["seq"]), 1 if s["frag"] else 0)
            det = {"stream": s, "events": [e for o, e in lines if o == owner]}
            what = "reader: %s on stream %s (maxmsg %d)" % (kind or obl, ",".join(s["seq"]), s["maxmsg"])
        ctx.violation(obl, sig, what, det)
    return lines, report


def hist_class(sc, verd):
    """History class of a scenario for signatures: the replay lead pattern (a queued message that closes the peer at
    replay time followed by a queued message whose replay starts a piece download), else the sequence itself.
    A byte-level mutation of a queueable message may turn it into a closer (index / length changed) or leave it a
    starter, so it counts as both."""
    if sc["st"] in ("meta", "alloc", "verify"):
        for p in range(1, sc["npe"] + 1):
            closed = False
            for m in sc["msgs"]:
                if m["pe"] != p:
                    continue
                c = m["cls"]
                if c.startswith("mut:"):
                    v = verd.get(c.split(":", 3)[3])
                    if v is None or not (v["queueable"] or v["rv"] == "desync"):
                        continue
                    closer = starter = True
                elif verd.get(c, {}).get("rv") == "desync":
                    closer = starter = True      # misframed bytes may be read as any queueable message
                else:
                    v = verd.get(c)
                    if v is None or v["rv"] != "deliver" or not v["queueable"]:
                        continue
                    closer, starter = v["closer"], v["starter"]
                if closed and starter:
                    return "closed-peer-replay"
                if closer:
                    closed = True
    return "seq:" + ",".join("%d:%s" % (m["pe"], m["cls"]) for m in sc["msgs"])[:300]


def judge_session(ctx, path, scenarios, verd):
    evs = vlib.read_ndjson(path)
    by_id = {s["id"]: s for s in scenarios}
    lines = []
    per = {}          # scenario id -> raw events
    cur = None
    skips = []
    for e in evs:
        op = e["op"]
        if op == "Begin":
            cur = e["sc"]
            per[cur] = []
            continue
        if cur is None:
            continue
        per[cur].append(e)
        if op == "Skip":
            skips.append((cur, e.get("why", "")))
    missing = [s["id"] for s in scenarios if s["id"] not in per]
    if missing:
        raise vlib.MachineryError("session driver did not run scenarios %s" % missing[:10])
    if len(skips) > max(3, len(scenarios) // 25):
        raise vlib.MachineryError("too many scenarios could not be set up (%d): %s" % (len(skips), skips[:5]))
    ctx.extra["session_setup_skips"] = {"count": len(skips), "first": [w[:160] for _, w in skips[:4]]}
    skipped = set(i for i, _ in skips)
    conf = {}       # (state, class) -> observed result of single-message scenarios
    memmax = [0]
    nobs = 0
    ntimer = {}
    for sid in sorted(per):
        sc = by_id[sid]
        if sid in skipped:
            continue
        owner = sid
        for e in per[sid]:
            op = e["op"]
            if op == "Init":
                lines.append((owner, {"op": "Init", "st": e["st"], "n": e["n"], "npe": e["npe"], "maxmsg": e["maxmsg"]}))
            elif op == "Msg":
                lines.append((owner, {"op": "Msg", "pe": e["pe"], "cls": e["cls"]}))
            elif op == "Stop":
                lines.append((owner, {"op": "Stop"}))
            elif op == "Timer":
                lines.append((owner, {"op": "Timer", "pe": e["pe"], "what": e["what"]}))
                ntimer[e["what"]] = ntimer.get(e["what"], 0) + (1 if e.get("ok", 0) == 1 else 0)
            elif op == "Disc":
                lines.append((owner, {"op": "Disc", "pe": e["pe"]}))
            elif op == "Obs":
                nobs += 1
                lines.append((owner, {"op": "Obs", "pe": e["pe"], "alive": e["alive"], "listed": e["listed"], "pong": e["pong"]}))
                ctx.oblig("C08.dropOrHandle")
                if sc["kind"] == "single":
                    conf.setdefault((sc["st"], sc["msgs"][0]["cls"]), {})[e.get("phase", "pre")] = "dropped" if e["alive"] == 0 else "alive"
            elif op == "Advance":
                lines.append((owner, {"op": "Advance", "to": e["to"]}))
            elif op == "Loop":
                lines.append((owner, {"op": "Loop", "ok": e["ok"], "zombie": e["zombie"], "running": e["running"]}))
                ctx.oblig("C08.hang")
            elif op == "Honest":
                lines.append((owner, {"op": "Honest", "ok": e["ok"]}))
                ctx.oblig("C08.honest")
            elif op == "Reconn":
                lines.append((owner, {"op": "Reconn", "ok": e["ok"]}))
                ctx.oblig("C08.dropOrHandle")
            elif op == "Mem":
                lines.append((owner, {"op": "Mem", "delta": min(int(e["delta"]), BIG - 1)}))
                ctx.oblig("C08.alloc")
                memmax[0] = max(memmax[0], int(e["delta"]))
            elif op == "Proc":
                lines.append((owner, {"op": "Proc", "what": e["what"]}))
                ctx.oblig("C08.crash" if e["what"] == "crash" else "C08.hang")
        nontriv = any(not verd.get(m["cls"], {"benign": {}})["benign"].get("down" if sc["st"] == "stopping" else sc["st"], False)
                      for m in sc["msgs"])
        ctx.count_case(("session", sc["st"], tuple((m["pe"], m["cls"]) for m in sc["msgs"])), nontriv)
        ctx.oblig("C08.crash")
    ctx.sample({"scenario": {k: scenarios[len(scenarios) // 3][k] for k in ("st", "npe", "msgs", "kind")}})
    ctx.extra["session_scenarios_by_state"] = {st: sum(1 for s in scenarios if s["st"] == st and s["id"] not in skipped) for st in STATES}
    # informational: observed result of single messages against the design table of the spec (not a verdict)
    div = []
    for (st, c), ph in sorted(conf.items()):
        if st == "stopping":
            continue
        now = set(verd[c]["res"][st])
        checks = [("pre", now)]
        if "post" in ph and ph.get("pre") == "alive":     # after the replay the live handler has seen a queued message
            checks.append(("post", set(verd[c]["res"]["down"]) if "queued" in now else {"handled"}))
        for phase, exp in checks:
            obs = ph.get(phase)
            if obs is None:
                continue
            if (obs == "dropped" and "dropped" not in exp) or (obs == "alive" and not (exp & {"handled", "queued", "skipped"})):
                div.append("%s/%s/%s: design %s, observed %s" % (st, c, phase, sorted(exp), obs))
    ctx.extra["session_alloc_max_per_scenario"] = memmax[0]
    ctx.extra["session_timer_steps_effective"] = ntimer      # fire: timer known to be armed; snub: event taken by the loop
    if sum(1 for s in scenarios if any(m["cls"] == "@snub" for m in s["msgs"])) >= 10 and ntimer.get("snub", 0) < 5:
        raise vlib.MachineryError("timer events were scripted but hardly any reached the loop: %s" % ntimer)
    ctx.extra["single_message_table"] = {"cells": len(conf), "divergent_from_design_table": div[:40]}

    def report(owner, tag, ev):
        sc = by_id[owner]
        raw = per[owner]
        obl, _, kind = tag.partition("/")
        site = ""
        for e in raw:
            if e["op"] == "Proc":
                site = e.get("site", "")
        hist = hist_class(sc, verd)
        seq = ",".join("%d:%s" % (m["pe"], m["cls"]) for m in sc["msgs"])[:200]
        if obl in ("C08.crash", "C08.hang"):
            sig = "tag=%s site=%s st=%s hist=%s" % (tag, site, sc["st"], hist)
            what = "%s in state %s after %s: %s" % ("client crashed" if obl == "C08.crash" else "torrent loop blocked for ever", sc["st"], seq, site[:300])
        elif kind == "zombie-peer":
            lk = {0: "none", 1: "peer", 2: "ip-only"}.get(next((e.get("lkind", 0) for e in raw if e["op"] == "Obs" and e.get("pe") == ev.get("pe")
                                                              and e.get("alive") == ev.get("alive") and e.get("listed") == ev.get("listed")), 0), "?")
            sig = "tag=%s st=%s alive=%s listed=%s hist=%s" % (tag, sc["st"], ev.get("alive"), lk, hist)
            what = "%s in state %s: attacker %s socket %s but rain lists %s, after %s" % (tag, sc["st"], ev.get("pe"), "open" if ev.get("alive") else "closed", lk, seq)
        elif kind == "ip-blocked-after-stop":
            sig = "tag=%s st=%s" % (tag, sc["st"])
            what = "an address that was in its handshake when the torrent was stopped cannot connect after the restart"
        else:
            sig = "tag=%s st=%s hist=%s" % (tag, sc["st"], hist)
            what = "%s in state %s (attacker %s) after %s" % (tag, sc["st"], ev.get("pe", 0), seq)
        ctx.violation(obl, sig, what, {"scenario": sc, "events": raw, "judge_event": ev})
    return lines, report
