"""C10 — downloads complete whenever an honest full source is reachable (Transfer.tla liveness + Picker.tla idle clause; driver harness/xfer)."""
import random
import vlib, xfer_common as xc


def run(ctx):
    ctx.level = "model_checking"
    ctx.cov["rule"] = ("download scenarios = layout class x picker mode x source mix (peer / web seed / both / split bitfields) x benign and hostile "
                       "fault schedules of the other peers, with an honest full source reachable; non-trivial = more than one source or a faulty "
                       "peer; distinct = distinct (layout, unit, mode, sources, policies)")
    ctx.assumptions += ["bounded-time judgement of liveness: completion within the scenario time-out (8 s for torrents of <= 6 pieces on loopback)",
                        "liveness under fairness is model-checked on the design model (MC_Transfer_live), tested on the implementation"]
    ctx.tlc_mc("MC_Transfer", "MC_Transfer_live.cfg", timeout=900)
    if not ctx.quick():
        ctx.tlc_mc("MC_Picker", "MC_Picker.cfg", timeout=1800)   # idle-peer clause at design level (quick: covered by ./check C09)
    drv = ctx.build_go("xfer")
    rng = random.Random(ctx.seed + 77)
    scs = xc.gen_scenarios(rng, ctx.pick(120, 1500), "c10")
    by_id = {s["id"]: s for s in scs}
    raws, crashed = xc.run_scenarios(ctx, drv, scs, nproc=ctx.pick(8, 12))
    abstract = {}
    for rp in raws:
        abstract.update(xc.project(rp, {c["id"] for c in crashed}))
    for sid, evs in abstract.items():
        s = by_id[sid]
        key = (s["layout"], s["unit"], s.get("seq"), tuple((p["policy"], p.get("have"), p.get("listen", False)) for p in s["peers"]),
               tuple(w["policy"] for w in s.get("webseeds", [])))
        ctx.count_case(key, len(s["peers"]) + len(s.get("webseeds", [])) > 1 or any(p["policy"] != "honest" for p in s["peers"]))
        ctx.oblig("C10.live(complete|timeout)", sum(1 for e in evs if e["ev"] in ("complete", "timeout")))
    if abstract:
        first = sorted(abstract)[0]
        ctx.sample({"scenario": by_id[first], "abstract_trace_tail": abstract[first][-6:]})
    ctx.extra["scenarios_run"] = len(scs)
    ctx.extra["scenarios_judged"] = len(abstract)
    ctx.extra["scenarios_crashed"] = [{"id": c["id"], "panic": c["panic"], "scenario": c["scenario"]} for c in crashed]
    if len(abstract) < 0.8 * len(scs):
        raise vlib.MachineryError("only %d of %d scenarios produced a complete trace" % (len(abstract), len(scs)))
    if ctx.obligation_counts.get("C10.live(complete|timeout)", 0) == 0:
        raise vlib.MachineryError("vacuous run")
    foreign = xc.judge(ctx, abstract, by_id, ["C10.", "C01.d"], "C01")
    ctx.extra["foreign_tags"] = {k: len(v) for k, v in foreign.items()}
