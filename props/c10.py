"""C10 — downloads complete whenever an honest full source is reachable (Transfer.tla liveness + Picker.tla idle clause; driver harness/xfer)."""
import random, re
import vlib, xfer_common as xc


def run(ctx):
    ctx.level = "model_checking"
    ctx.cov["rule"] = ("download scenarios = layout class x picker mode x start mode (.torrent / magnet link, empty or pre-filled storage) x source mix "
                       "(peer / web seed / both / split bitfields / pair of web seeds on 48..72-piece torrents) x benign and hostile fault schedules "
                       "of the other peers (incl. metadata stallers) x command/disk events (stop/start, failed storage write + Start, damage + Verify "
                       "+ Start), with an honest full source reachable; non-trivial = more than one source, a faulty peer, a magnet start, "
                       "pre-existing data or a command/disk event; distinct = distinct (layout, unit, mode, sources, policies, start mode, events)")
    ctx.assumptions += ["bounded-time judgement of liveness: a download is stuck when neither the metadata nor a further piece arrived for the "
                        "scenario time-out (8-15 s for torrents of <= 6 pieces, 40 s for 48..160 pieces, on loopback; total wait <= 4 time-outs); "
                        "a time-out is reported only if the same scenario times out again when re-executed in isolation",
                        "web-seed response timeouts are raised to 15-30 s in the harness (a slow recording storage must not disable an honest web seed)",
                        "liveness under fairness is model-checked on the design model (MC_Transfer_live), tested on the implementation"]
    ctx.tlc_mc("MC_Transfer", "MC_Transfer_live.cfg", timeout=900)
    if not ctx.quick():
        ctx.tlc_mc("MC_Picker", "MC_Picker.cfg", timeout=1800)   # idle-peer clause at design level (quick: covered by ./check C09)
    drv = ctx.build_go("xfer")
    rng = random.Random(ctx.seed + 77)
    scs = xc.gen_scenarios(rng, ctx.pick(150, 1800), "c10")
    scs += xc.gen_heavy(rng, ctx.pick(6, 30), len(scs) + 1, "c10")
    by_id = {s["id"]: s for s in scs}
    raws, crashed = xc.run_scenarios(ctx, drv, scs, nproc=ctx.pick(8, 12), per_timeout=60)
    abstract = {}
    for rp in raws:
        abstract.update(xc.project(rp, {c["id"] for c in crashed}))
    for sid, evs in abstract.items():
        s = by_id[sid]
        key = (s["layout"], s["unit"], s.get("seq"), tuple((p["policy"], p.get("have"), p.get("listen", False), p.get("meta")) for p in s["peers"]),
               tuple(w["policy"] for w in s.get("webseeds", [])), bool(s.get("magnet")), s.get("prefill"), s.get("after"),
               tuple((t["do"], t["n"]) for t in s.get("timing", [])))
        ctx.count_case(key, len(s["peers"]) + len(s.get("webseeds", [])) > 1 or any(p["policy"] != "honest" for p in s["peers"])
                       or bool(s.get("magnet") or s.get("prefill") or s.get("after") or s.get("timing")))
        ctx.oblig("C10.live(complete|timeout)", sum(1 for e in evs if e["ev"] in ("complete", "timeout")))
        if s.get("magnet"):
            ctx.oblig("C10.live(magnet)", sum(1 for e in evs if e["ev"] in ("complete", "timeout")))
        if s.get("after"):
            ctx.oblig("C10.live(second completion after damage+verify)", max(0, sum(1 for e in evs if e["ev"] in ("complete", "timeout")) - 1))
    if abstract:
        first = sorted(abstract)[0]
        ctx.sample({"scenario": by_id[first], "abstract_trace_tail": abstract[first][-6:]})
    ctx.extra["scenarios_run"] = len(scs)
    ctx.extra["scenarios_judged"] = len(abstract)
    ctx.extra["scenarios_crashed"] = [{"id": c["id"], "panic": c["panic"], "scenario": c["scenario"]} for c in crashed]
    if len(abstract) < 0.8 * len(scs):
        raise vlib.MachineryError("only %d of %d scenarios produced a complete trace" % (len(abstract), len(scs)))
    for tag in ("C10.live(complete|timeout)", "C10.live(magnet)", "C10.live(second completion after damage+verify)"):
        if ctx.obligation_counts.get(tag, 0) == 0:
            raise vlib.MachineryError("vacuous run: %s never evaluated" % tag)
    # the process died in the middle of a download that had an honest source: the download did not complete
    for c in crashed:
        s = c["scenario"]
        if s.get("honest"):
            site = re.sub(r"0x[0-9a-f]+|\d+", "N", c["panic"] or "rc=%s" % c["rc"])[:120]
            ctx.violation("C10.live.crash", "tag=C10.live.crash layout=%s fam=%s panic=%s" % (re.sub(r"\d+$", "", s["layout"]), xc.fam_of(s), site),
                          "the client process died during a download with an honest source reachable (%s)" % (c["panic"] or "no panic line"),
                          {"scenario": s, "stderr_tail": c["stderr_tail"]})
    foreign = xc.judge(ctx, abstract, by_id, ["C10.", "C01.d"], "C01", drv=drv)
    ctx.extra["foreign_tags"] = {k: len(v) for k, v in foreign.items()}
