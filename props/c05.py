"""C05 — crash-consistent resume (spec/Resume.tla + MC_Resume*.cfg, Trace_Resume.tla; driver harness/c05).

Design level: TLC checks Resume exhaustively (download x persistence x crash x file deletion x restart) for the safe
allocation order; the as-is order of the code (and the order after the minimal repair) and a storage without O_SYNC are
checked too and are EXPECTED to yield counterexamples (recorded as evidence, never a verdict).
Resume.tla writes a piece section by section (one storage write per file of the piece) and lets every section fail;
ResumeMulti.tla puts several torrents behind ONE periodic writer / one database. Designs that forget a failed section or
pair bitfields with records by position are model-checked too and must fail (sensitivity).
Code level: the driver kills a real leeching session (real file storage, real bbolt database) at every enumerated crash
point, optionally deletes data files, restarts a fresh process on the same database/data and records what it treats as
downloaded; further history families: a storage write FAULT at every section position of the pieces that span files
(then kill / stop / start / close, then restart), a torrent MOVED INTO the session over the RPC server with the request
cut at every position of the archive (or the target killed while the sender stalls), and sessions with SEVERAL torrents
whose database is copied consistently at many ticks of the 2 ms periodic writer (every copy judged per torrent, restarts
from the distinct copies). Trace_Resume judges every history (one TLC pass, '@@VIOL tag line')."""
import itertools, json, os, random, re, shutil, subprocess, threading
import vlib

RWI = 3            # ms, "periodic" configurations
NEVER = 3600000    # ms, periodic writer practically off
GATE_DELAY = 12000  # us a gated kill waits so that a periodic write can happen first


def K(kind, n=0, delay=0):
    return {"kind": kind, "n": n, "delayUs": delay}


def life(mode, kill, wrap=True, rwi=RWI, dele=None, fault=None):
    r = {"mode": mode, "wrap": wrap, "rwiMs": rwi, "kill": kill}
    if dele:
        r["del"] = dele
    if fault:
        r["fault"] = fault
    return r


def F(p, s, mode, once=True):
    return {"p": p, "s": s, "mode": mode, "once": once}


def settle(dele=None, wrap=True, rwi=RWI):
    return life("restart", K("settled"), wrap=wrap, rwi=rwi, dele=dele)


def leech_points(g, full):
    """every enumerated kill point of a leeching life for geometry g -> list of (kill, rwi)"""
    pts = []
    for j in range(g["nw"]):
        for ph in ("w-enter", "w-half", "w-exit"):
            pts.append((K(ph, j, GATE_DELAY), RWI))
    for j in range(g["np"]):
        pts.append((K("bit", j), NEVER))        # bit set, nothing persisted yet
        pts.append((K("persisted", j), RWI))    # the periodic writer has stored it
    for j in range(g["nf"]):
        pts.append((K("open-exit", j), RWI))    # during the first allocation
    if full:
        for j in range(g["nf"]):
            pts.append((K("open-enter", j), RWI))
    last = g["np"] - 1
    mid = max(0, g["np"] // 2 - 1)
    for n in sorted({0, mid} if full else {0}):
        for d in (0, 300, -1, -2):
            pts.append((K("stop", n, d), NEVER))      # writeBitfield of stop() is the only writer
    pts.append((K("complete", 0, 0), NEVER))          # writeBitfield on completion
    pts.append((K("complete", 0, GATE_DELAY), RWI))
    pts.append((K("close", mid, -1), NEVER))          # graceful close: updateStats
    pts.append((K("close", last, 200), RWI))
    pts.append((K("verify", mid, 2000), RWI))         # Verify(): stored bitfield deleted, re-check under way
    return pts


def subsets(nf, full):
    one = [[f] for f in range(nf)]
    if nf == 1:
        return [[-1]]
    out = one + [[-1]]
    if full or nf <= 3:
        for k in range(2, nf):
            out += [list(c) for c in itertools.combinations(range(nf), k)]
    return out


def plan(ctx, geos):
    rng = random.Random(ctx.seed)
    quick = ctx.quick()
    scs = []

    def add(layout, unit, runs, fam):
        scs.append({"id": len(scs) + 1, "layout": layout, "unit": unit, "seed": rng.randrange(1, 1 << 30), "runs": runs, "fam": fam})

    layouts = ["multi"] if quick else ["multi", "single", "empties", "padmid", "padalign", "odd"]
    for li, lay in enumerate(layouts):
        unit = 16384 if (quick or li % 2 == 0) else 5000
        g = geos[(lay, unit)]
        nf, np_ = g["nf"], g["np"]
        full = not quick and lay in ("multi", "padmid")
        # A: every kill point of the first life, then a restart that settles
        pts = leech_points(g, full)
        for kill, rwi in pts:
            add(lay, unit, [life("leech", kill, rwi=rwi), settle()], "points")
        # B: files deleted while down
        after = [(K("persisted", min(1, np_ - 1)), RWI), (K("complete", 0, GATE_DELAY), RWI), (K("close", np_ - 1, -1), NEVER)]
        if quick:
            after = after[:2]
        for kill, rwi in after:
            for s in subsets(nf, full):
                add(lay, unit, [life("leech", kill, rwi=rwi), settle(dele=s)], "delete")
        # C: the life that finds files missing is killed as well (allocation / re-check / before the first write)
        dels = subsets(nf, False)
        if quick:
            dels = [d for d in dels if d in ([min(1, nf - 1)], [-1])]
        for s in dels:
            kills = []
            if s == [-1] or nf == 1:
                kills = [(K("open-exit", nf - 1), NEVER), (K("settled", 0, 0), NEVER), (K("settled", 0, 4 * RWI * 1000), RWI)]
            else:
                kills = [(K("open-enter", s[0]), RWI), (K("open-exit", s[0]), RWI), (K("r-enter", 0, GATE_DELAY), RWI),
                         (K("r-enter", g["nw"] - 1), RWI), (K("settled", 0, 4 * RWI * 1000), RWI)]
            for kill, rwi in kills:
                add(lay, unit, [life("leech", K("complete", 0, GATE_DELAY), rwi=RWI), life("restart", kill, rwi=rwi, dele=s), settle()], "recheck-kill")
        # E: a second leeching life continues the download and is killed too
        cont = [(K("w-half", g["nw"] // 2, GATE_DELAY), K("w-enter", 0, GATE_DELAY)), (K("persisted", 0), K("bit", 0)),
                (K("bit", 0), K("persisted", 0)), (K("w-exit", 0, GATE_DELAY), K("complete", 0, 0))]
        if not quick:
            early = [p for p in pts if p[0]["kind"] in ("w-enter", "w-half", "w-exit", "bit", "persisted", "stop", "open-exit", "verify")
                     and not (p[0]["kind"] in ("bit", "persisted") and p[0]["n"] >= np_ - 1)
                     and not (p[0]["kind"].startswith("w-") and p[0]["n"] >= g["nw"] - 1)]       # something is left to download
            for _ in range(8):
                a, b = rng.choice(early), rng.choice([p for p in pts if not p[0]["kind"].startswith("open")])
                cont.append((a[0], dict(b[0], n=0)))
        for a, b in cont:
            if np_ < 2:
                continue
            add(lay, unit, [life("leech", a, rwi=RWI), life("leech", b, rwi=RWI), settle()], "continue")
    # Z: content with all-zero DATA pieces (their hash is the hash of zeros) x pre-existing copies of the data files that are
    #    stale / wrong only in the zero ranges / truncated / partly missing / good, x kills at every crash point: a bit must
    #    never be set (on any start path) for content that is not in the files
    PRES = {"none": [], "patch": [{"f": -1, "kind": "patch"}], "stale": [{"f": -1, "kind": "stale"}], "short": [{"f": -1, "kind": "short"}],
            "mixed": [{"f": 0, "kind": "stale"}], "good": [{"f": -1, "kind": "good"}]}
    zplan = [("zspan", ["patch"]), ("zrun", ["stale-lite"]), ("zfile", ["none"])] if quick else \
            [(z, ["patch", "stale", "none", "short", "mixed", "good"]) for z in ("zspan", "zrun", "zend", "zfile")]
    for lay, pres in zplan:
        g = geos[(lay, 16384)]
        nwz = sum(len(g["fo"][p]) for p in g["zp"])
        for pre in pres:
            kills = []
            if pre == "patch":      # only the zero pieces are downloaded
                for j in range(nwz):
                    kills += [(K(ph, j, GATE_DELAY), RWI) for ph in ("w-enter", "w-half", "w-exit")]
                for j in range(len(g["zp"])):
                    kills += [(K("bit", j), NEVER), (K("persisted", j), RWI)]
                kills += [(K("settled", 0, GATE_DELAY), RWI), (K("r-enter", 0), RWI), (K("r-enter", g["nw"] - 1, GATE_DELAY), RWI),
                          (K("complete", 0, GATE_DELAY), RWI), (K("stop", 0, -1), NEVER), (K("close", 0, -1), NEVER)]
            elif pre == "stale":    # everything is downloaded over the stale bytes
                for j in range(g["nw"]):
                    kills += [(K(ph, j, GATE_DELAY), RWI) for ph in ("w-enter", "w-half", "w-exit")]
                for j in range(g["np"]):
                    kills += [(K("persisted", j), RWI)]
                kills += [(K("settled", 0, GATE_DELAY), RWI), (K("r-enter", 0), RWI), (K("complete", 0, 0), NEVER), (K("stop", 0, -1), NEVER)]
            elif pre == "stale-lite":
                kills = [(K("settled", 0, GATE_DELAY), RWI), (K("w-half", 0, GATE_DELAY), RWI), (K("persisted", 0), RWI), (K("complete", 0, GATE_DELAY), RWI)]
            else:
                kills = [(K("settled", 0, GATE_DELAY), RWI), (K("w-half", 0, GATE_DELAY), RWI), (K("bit", 0), NEVER), (K("persisted", 0), RWI),
                         (K("complete", 0, GATE_DELAY), RWI)]
                if pre == "good":       # nothing is left to download: only the start paths
                    kills = [(K("settled", 0, GATE_DELAY), RWI), (K("complete", 0, GATE_DELAY), RWI)]
                if pre != "none":
                    kills.append((K("r-enter", 0), RWI))
            for kill, rwi in kills:
                runs = [life("leech", kill, rwi=rwi), settle()]
                if not quick and kill["kind"] in ("settled", "persisted") and kill["n"] == 0:
                    # the download goes on in a second life, and a file is deleted before the last one
                    add(lay, 16384, [life("leech", kill, rwi=rwi), life("leech", K("w-half", 0, GATE_DELAY), rwi=RWI), settle()], "zero")
                    add(lay, 16384, [life("leech", kill, rwi=rwi), settle(dele=[g["nf"] - 1] if g["nf"] > 1 else [-1])], "zero")
                    scs[-1]["pre"] = scs[-2]["pre"] = PRES.get(pre, PRES["stale"])
                add(lay, 16384, runs, "zero")
                scs[-1]["pre"] = PRES.get(pre, PRES["stale"])
    # F: storage WRITE FAULTS - the write of ONE file section of a piece fails (before the first byte / after half of the
    #    section), at every section position of every piece that spans files (and one piece inside a file); the life ends
    #    by SIGKILL right after the fault / after the client stopped the torrent / after a Start in the same life finished the
    #    download / by a graceful close; then a restart. Judged by C05.db / C05.ahead: the failed piece is not on disk.
    flays = [("multi", 16384), ("span3", 16384)] if quick else \
            [("multi", 16384), ("span3", 16384), ("spanpad", 16384), ("multi", 5000), ("span3", 5000), ("odd", 5000), ("empties", 16384), ("zspan", 16384)]
    for lay, unit in flays:
        g = geos[(lay, unit)]
        inside = [p for p in range(g["np"]) if len(g["fo"][p]) == 1][:1]
        for p in [q for q in range(g["np"]) if len(g["fo"][q]) >= 2] + inside:
            ns = len(g["fo"][p])
            for sidx in range(ns):
                if sidx < ns - 1:       # a later section of the piece would still be written
                    v = [("half", "fstopped", 0, True), ("half", "faulted", GATE_DELAY, False), ("half", "frestart", GATE_DELAY, True), ("half", "fclose", -1, True),
                         ("enter", "fstopped", GATE_DELAY, False), ("enter", "fclose", -1, False)]
                    if not quick:
                        v += [("enter", "frestart", 0, True), ("enter", "faulted", 0, True), ("half", "fstopped", GATE_DELAY, False)]
                else:
                    v = [("half", "fstopped", 0, True), ("enter", "frestart", GATE_DELAY, True)]
                    if not quick:
                        v += [("enter", "fclose", -1, False), ("half", "faulted", GATE_DELAY, False)]
                for mode, kind, delay, once in v:
                    runs = [life("leech", K(kind, 0, delay), rwi=RWI, fault=F(p, sidx, mode, once)), settle()]
                    if not quick and kind in ("fstopped", "faulted") and rng.random() < 0.5:
                        runs = runs[:1] + [life("leech", K("complete", 0, GATE_DELAY), rwi=RWI), settle()]     # the download goes on in the next life
                    add(lay, unit, runs, "fault")
    # M: another session MOVES a torrent into this one (POST /move-torrent on the RPC server): the request is complete, ends
    #    early (archive without the last files), breaks at every position of the archive (source gone: end of stream inside
    #    the announced body) or stalls there while the target is killed; then the target restarts. The record (with the
    #    bitfield of the source) must not be there without the data.
    for lay, unit in ([("multi", 16384), ("single", 16384)] if quick else [("multi", 16384), ("single", 16384), ("empties", 16384), ("padmid", 16384), ("multi", 5000)]):
        g = geos[(lay, unit)]
        nfl = [f for f in range(g["nf"]) if g["flen"][f] > 0]
        mvs = [dict(cut="meta", after="kill", delayUs=GATE_DELAY), dict(cut="none", after="kill", delayUs=0), dict(cut="none", after="settle", delayUs=GATE_DELAY),
               dict(cut="none", after="close")]
        for f in nfl:
            for pm in ((0, 500) if quick else (0, 300, 999)):
                mvs.append(dict(cut="abort", f=f, permil=pm, after="kill", delayUs=(0 if pm else GATE_DELAY)))
            if not quick:
                mvs.append(dict(cut="abort", f=f, permil=600, after="close"))
            if f in (nfl[0], nfl[-1]) or not quick:
                mvs.append(dict(cut="hold", f=f, permil=500, after="kill", delayUs=0))
            if f > 0:
                mvs.append(dict(cut="short", f=f, after="settle", delayUs=GATE_DELAY))
        for mv in mvs:
            for have in (["full"] if quick else ["full", "part"]):
                if have == "part" and mv["cut"] in ("meta",):
                    continue
                add(lay, unit, [], "move")
                scs[-1]["move"] = dict({"f": 0, "permil": 0, "delayUs": 0, "rwiMs": RWI, "have": have}, **mv)
    # T: SEVERAL TORRENTS in one session share the periodic writer (2 ms): a complete one, an empty one, a leeching / partial
    #    one - same geometry, so that their bitfields have the same length; a consistent copy of the database is taken at many
    #    ticks (= the state a kill at that tick leaves), EVERY copy is judged per torrent, and the session is restarted from the
    #    state after the kill and from the distinct states of the copies
    tplan = [("multi", ["full", "empty"], 0), ("multi", ["empty", "leech", "full"], 3000), ("single", ["leech", "full"], 2000)] if quick else \
            [("multi", ["full", "empty"], 0), ("multi", ["empty", "full"], 0), ("multi", ["empty", "leech", "full"], 3000), ("single", ["leech", "full"], 2000),
             ("single", ["full", "part", "empty"], 2000), ("odd", ["part", "full"], 1000), ("padmid", ["full", "empty", "leech"], 2000),
             ("empties", ["leech", "leech", "full"], 3000), ("multi", ["full", "full", "empty"], 0), ("zspan", ["empty", "full"], 0)]
    for lay, roles, delay in tplan:
        add(lay, 16384, [], "multi")
        scs[-1]["multi"] = {"roles": roles, "snaps": ctx.pick(40, 150), "gapUs": 3000, "restarts": ctx.pick(2, 5), "rwiMs": 2, "lives": ctx.pick(1, 2), "delayUs": delay}
    if not quick:       # torrents of different geometry in one session
        add("multi", 16384, [], "multi")
        scs[-1]["multi"] = {"roles": ["full", "empty", "leech"], "layouts": ["multi", "single", "odd"], "snaps": 100, "gapUs": 3000, "restarts": 3, "rwiMs": 2, "lives": 1, "delayUs": 2000}
    # R: RE-ADD OVER AN UNLOADABLE RECORD - a life leaves a persisted bitfield; the record becomes unloadable while the client is
    #    down (unknown version after a downgrade / damaged info: the session skips it and KEEPS the bucket); data files are
    #    deleted (all / some / none); the torrent is added again under the SAME ID and that life is killed right after the add
    #    (added stopped), at every file of its first allocation, or after it settled; then a restart. The database found after the
    #    re-add life must not claim content that is not in the files (C05.db), nor may the next start trust it (C05.ahead).
    for lay, unit in ([("multi", 16384)] if quick else [("multi", 16384), ("single", 16384), ("padmid", 16384), ("odd", 5000)]):
        g = geos[(lay, unit)]
        nf = g["nf"]
        firsts = [(K("complete", 0, GATE_DELAY), RWI)] if quick else [(K("complete", 0, GATE_DELAY), RWI), (K("persisted", min(1, g["np"] - 1)), RWI), (K("close", g["np"] - 1, -1), NEVER)]
        for fk, frwi in firsts:
            for dmg in (["version"] if quick else ["version", "info"]):
                dels = [[-1], [min(1, nf - 1)]] if nf > 1 else [[-1]]
                if not quick:
                    dels.append(None)
                for dele in dels:
                    kills = [(K("added", 0, 0), True), (K("open-exit", nf - 1), False), (K("settled", 0, 4 * RWI * 1000), False)]
                    if not quick:
                        kills += [(K("open-exit", j), False) for j in range(nf - 1)] + [(K("added", 0, GATE_DELAY), False)]
                    for kill, stopped in kills:
                        rd = life("readd", kill, rwi=RWI, dele=dele)
                        rd["damage"], rd["stopped"] = dmg, stopped
                        add(lay, unit, [life("leech", fk, rwi=frwi), rd, settle()], "readd")
    # O: DATA FILES OWNED BY ANOTHER USER - the client runs as an ordinary user (uid 65534); copies of the data files (stale / good)
    #    that belong to root and are writable for everybody are already there (shared download directory). Whatever the storage
    #    does about them (refuse: allocation error; or open), a handle it hands out must be O_SYNC (C05.osync: the open event
    #    carries the flags of the real descriptor; a returned write through another handle is not durable, a persisted bit for it
    #    is ahead of the disk). Needs root (to create files of another owner and to drop privileges); skipped otherwise.
    if os.geteuid() == 0:
        for lay, unit in ([("multi", 16384)] if quick else [("multi", 16384), ("single", 16384), ("span3", 16384)]):
            g = geos[(lay, unit)]
            pres = [("stale", -1)] + ([("stale", g["nf"] - 1)] if g["nf"] > 1 else []) + ([] if quick else [("good", -1)])
            for kind, f in pres:
                kills = [(K("persisted", 0), RWI), (K("complete", 0, GATE_DELAY), RWI)]
                if not quick:
                    kills += [(K("stop", 0, -1), NEVER), (K("close", g["np"] - 1, -1), NEVER), (K("w-exit", 0, GATE_DELAY), RWI)]
                if kind == "good":
                    kills = [(K("settled", 0, GATE_DELAY), RWI)]
                for kill, rwi in kills:
                    add(lay, unit, [life("leech", kill, rwi=rwi), settle()], "owner")
                    scs[-1]["pre"] = [{"f": f, "kind": kind, "foreign": True}]
                    scs[-1]["uid"] = 65534
    # D: default storage provider, kills at jittered times while the periodic writer commits every 2 ms
    njit = ctx.pick(10, 150)
    for i in range(njit):
        lay = rng.choice(layouts)
        unit = 16384 if quick else rng.choice([16384, 5000])
        if (lay, unit) not in geos:
            unit = 16384
        g = geos[(lay, unit)]
        runs = [life("leech", K("time", 0, rng.randrange(0, 60000)), wrap=False, rwi=2)]
        r = rng.random()
        if r < 0.3:
            runs.append(life("leech", K("time", 0, rng.randrange(0, 40000)), wrap=False, rwi=2))
        dele = None
        if rng.random() < 0.3:
            dele = rng.choice(subsets(g["nf"], False))
        runs.append(settle(dele=dele, wrap=False))
        add(lay, unit, runs, "jitter")
    return scs


def hist_class(sc):
    parts = []
    if sc.get("multi"):
        m = sc["multi"]
        return "multi:" + "+".join(m["roles"]) + (";layouts=" + "+".join(m["layouts"]) if m.get("layouts") else "") + (";lives=%d" % m["lives"])
    if sc.get("move"):
        m = sc["move"]
        return "move:have=%s;cut=%s%s;after=%s" % (m["have"], m["cut"], ("@f%d.%d" % (m["f"], m["permil"])) if m["cut"] in ("abort", "hold", "short") else "", m["after"])
    if sc.get("uid"):
        parts.append("as-user;foreign-files")
    if sc.get("pre"):
        parts.append("pre=" + "+".join(sorted({p["kind"] for p in sc["pre"]})) + ("" if sc["pre"][0]["f"] == -1 else "(some)"))
    for r in sc["runs"]:
        d = r.get("del")
        if d:
            parts.append("del=all" if d == [-1] else "del=some")
        if r.get("damage"):
            parts.append("damage=" + r["damage"])
        if r.get("fault"):
            parts.append("fault=p%d.s%d:%s%s" % (r["fault"]["p"], r["fault"]["s"], r["fault"]["mode"], "" if r["fault"]["once"] else "*"))
        parts.append("%s:%s" % (r["mode"], r["kill"]["kind"]))
    return ";".join(parts)


def apalache(ctx):
    """Optional: Apalache proves that IndInv of spec/ResumeInd.tla (safe design, geometry of MC_Resume.cfg) is inductive.
    Under timeout, never gating: the outcome is only recorded."""
    res = {}
    try:
        d = os.path.dirname(ctx.path("apalache", "x"))
        shutil.copy(os.path.join(vlib.VERIF, "spec", "ResumeInd.tla"), d)
        for name, args in (("initiation", ["--init=Init", "--inv=IndInv", "--length=0"]),
                           ("consecution", ["--init=IndInit", "--inv=IndInv", "--length=1"])):
            r = subprocess.run(["apalache-mc", "check"] + args + ["--out-dir=" + os.path.join(d, "out"), "ResumeInd.tla"],
                               cwd=d, capture_output=True, text=True, timeout=900)
            m = re.search(r"The outcome is: (\w+)", r.stdout)
            res[name] = m.group(1) if m else "no outcome (rc=%d)" % r.returncode
    except Exception as ex:     # missing tool, timeout, ...
        res["error"] = str(ex)[:300]
    ctx.extra["apalache_inductive_invariant"] = res
    vlib.log("Apalache inductive invariant (informational):", res)


ASIS = [
    ("MC_Resume", "MC_Resume_code.cfg", "InvTrust", "the code's order (missing files created first, loaded bitfield kept while they are re-checked)"),
    # sensitivity of the obligations to the fault / sharing actions (designs that must fail; cheap, every tier)
    ("MC_Resume", "MC_Resume_lasterr.cfg", "Inv", "piece write that reports only the result of its LAST file section: a failed earlier section is forgotten, "
                                                  "the bit is set and persisted without the content"),
    ("ResumeMulti", "MC_ResumeMulti_bypos.cfg", "Inv", "shared periodic writer that pairs bitfields with records by position over two passes of the torrent map: "
                                                        "a record receives the bitfield of another torrent"),
    ("MC_ResumeEnv", "MC_ResumeEnv_keep.cfg", "Inv", "re-add over an unloadable record that does not store keys it has no value for: the bitfield of the old "
                                                     "record survives in the new one and claims files that the re-added torrent has just created"),
    ("MC_ResumeEnv", "MC_ResumeEnv_nosyncfb.cfg", "Inv", "fallback open of a data file owned by another user that drops O_SYNC together with O_NOATIME"),
    ("MC_Resume", "MC_Resume_patched.cfg", "InvTrust", "order after the minimal repair (bitfield dropped in handleAllocationDone): the window between the creation "
                                                       "of a missing file and that update remains"),
    ("MC_Resume", "MC_Resume_nosync.cfg", "Inv", "data files not opened O_SYNC: a persisted bit can be ahead of durable data"),
]


def run(ctx):
    ctx.level = "model_checking"
    ctx.cov["rule"] = ("crash histories = sequences of process lives on one resume database + data directory, each ended by SIGKILL at an "
                       "enumerated point (storage write enter/half/exit per file section, bit set, bit persisted, stop, close, completion, Verify, "
                       "allocation open enter/exit, verification read, settled, jittered time) with data-file subsets deleted in between; "
                       "a storage write fault (I/O error before the first byte / after half of the section) at every file-section position of every "
                       "piece that spans files, followed by kill / stop / start-in-the-same-life / close and a restart; "
                       "POST /move-torrent into the session (complete, archive ending early, stream ending at every file position, sender stalling "
                       "while the target is killed) followed by a restart; sessions with 2-3 torrents of equal geometry (complete / empty / leeching / "
                       "partial) whose database is copied in one read transaction at 40-150 ticks of a 2 ms periodic writer, every copy judged per "
                       "torrent, restarts from the state after the kill and from the distinct copies; "
                       "re-add over an unloadable record: a life leaves a persisted bitfield, the record is made unloadable (unknown version / "
                       "cut info) while the client is down, files are deleted (all / some / none), the torrent is added again under the same ID "
                       "and that life is killed after the add / at every file of its allocation / settled, then a restart; "
                       "data files owned by another user (root-owned, world-writable stale / good copies) under a client running as uid 65534, "
                       "kills at persisted / complete / stop / close, then a restart; "
                       "layouts include content with all-zero data pieces over pre-existing stale / partial / truncated copies of the data files; "
                       "non-trivial = a kill at a storage/allocation/verification gate, a deletion, planted files or >= 3 lives; distinct = layout x history class x kill ordinals")
    ctx.assumptions += ["power loss is not simulated: SIGKILL keeps the page cache, so the O_SYNC flag of every data-file descriptor (/proc/self/fdinfo) is the "
                        "observable obligation for durability of a returned write (C05.osync)",
                        "the wrapping storage provider delegates to the real internal/storage/filestorage and splits every WriteAt into two halves",
                        "bbolt commit atomicity under SIGKILL is sampled by time-jittered kills with ResumeWriteInterval = 2 ms, not enumerated",
                        "a database copy taken in a read transaction while the client runs (tx.CopyFile) stands for the file a SIGKILL at that "
                        "tick leaves; the data files are read after the copy (content only accumulates in those lives), so a claim that is not "
                        "backed by the files then was not backed at the tick either",
                        "write faults are injected by the wrapping storage provider (error returned instead of / after half of the section write); "
                        "the move request is built by the harness exactly as Torrent.Move builds it (multipart id / metadata / tar data)"]
    if getattr(ctx, "replay", None):
        # ./check C05 --replay replays/C05-...json : the recorded crash history is run again and judged
        sc = json.load(open(ctx.replay))["detail"]["scenario"]
        sc["id"] = 1
        code_level(ctx, [sc])()
        return
    # ---- design level (runs beside the build and the driver)
    box = {}

    def design():
        try:
            ctx.tlc_mc("MC_Resume", "MC_Resume.cfg", timeout=900, workers=4)            # 3 pieces x 2 files, write faults at every section
            ctx.tlc_mc("ResumeMulti", "MC_ResumeMulti.cfg", timeout=900, workers=4)       # 3 torrents x 2 pieces, one shared writer
            ctx.tlc_mc("MC_ResumeEnv", "MC_ResumeEnv.cfg", timeout=900, workers=4)        # + record damage / re-add, files of another owner (refused)
            if not ctx.quick():
                ctx.tlc_mc("MC_ResumeEnv", "MC_ResumeEnv_sync.cfg", timeout=900, workers=4)   # foreign files opened, O_SYNC kept
            if not ctx.quick():
                ctx.tlc_mc("MC_Resume", "MC_Resume_span3.cfg", timeout=900, workers=4)    # a piece over three files (middle section)
                ctx.tlc_mc("MC_Resume", "MC_Resume_big.cfg", timeout=2400, workers=8)
            leads = {}
            for module, cfg, inv, what in (ASIS[:5] if ctx.quick() else ASIS):
                ok, out = ctx.tlc_mc(module, cfg, timeout=900, workers=2, expect_ok=False)
                viol = re.findall(r"Invariant (\S+) is violated", out)
                if not ok and not viol:
                    raise vlib.MachineryError("%s failed without an invariant violation:\n%s" % (cfg, out[-3000:]))
                if ok:
                    raise vlib.MachineryError("%s is expected to violate %s (design-level image of a defect / of a missing mechanism)" % (cfg, inv))
                leads[cfg] = {"what": what, "result": "violates " + ",".join(sorted(set(viol))), "trace_len": len(re.findall(r"^State \d+:", out, re.M))}
            ctx.extra["design_variants_expected_to_fail"] = leads
            if not ctx.quick():
                apalache(ctx)
        except BaseException as ex:
            box["err"] = ex

    th = threading.Thread(target=design if os.environ.get("C05_ONLY") != "code" else (lambda: None))   # dev switch for mutation smoke tests
    th.start()
    try:
        judge = code_level(ctx)
    finally:
        th.join()           # TLC bookkeeping of ctx is not shared between threads: the judge runs after the design runs
    if "err" in box:
        raise box["err"]
    judge()


def code_level(ctx, scs=None):
    drv = ctx.build_go("c05")
    if os.geteuid() == 0:       # family O runs the client as an ordinary user: the scratch path must be traversable for it
        d = ctx.scratch
        os.chmod(d, 0o711)
        for sub in ("bin", "work"):
            os.makedirs(os.path.join(d, sub), exist_ok=True)
            os.chmod(os.path.join(d, sub), 0o711)
    else:
        ctx.assumptions.append("family O (data files owned by another user) skipped: the check does not run as root")
    if scs is None:
        geos = {}
        for lay in ["multi", "single", "empties", "padmid", "padalign", "odd", "zspan", "zrun", "zend", "zfile", "span3", "spanpad"]:
            for unit in (16384, 5000):
                r = ctx.run_drv(drv, ["probe", "-layout", lay, "-unit", str(unit)], timeout=60)
                geos[(lay, unit)] = json.loads(r.stdout.strip().splitlines()[-1])
        scs = plan(ctx, geos)
    by_id = {s["id"]: s for s in scs}
    pp = ctx.path("plan.ndjson")
    vlib.write_ndjson(pp, scs)
    absf = ctx.path("abs.ndjson")
    work = ctx.path("work", "x")
    r = ctx.run_drv(drv, ["run", "-plan", pp, "-out", absf, "-work", os.path.dirname(work), "-par", str(ctx.pick(12, 12))],
                    timeout=ctx.pick(600, 3000))
    mach = [json.loads(x[5:]) for x in r.stdout.splitlines() if x.startswith("MACH ")]
    done = [json.loads(x[5:]) for x in r.stdout.splitlines() if x.startswith("DONE ")]
    ctx.extra["scenarios_planned"] = len(scs)
    ctx.extra["scenarios_judged"] = len(done)
    ctx.extra["scenarios_machinery_failed"] = [{"sid": m["sid"], "history": hist_class(by_id[m["sid"]]), "err": m["err"][:300]} for m in mach][:20]
    if len(done) < 0.9 * len(scs):
        raise vlib.MachineryError("only %d of %d crash histories could be run: %s" % (len(done), len(scs), json.dumps(mach[:3])[:1500]))
    # split the abstract trace per scenario
    evs = vlib.read_ndjson(absf)
    index = []      # (sid, first line (1-based), events)
    for i, e in enumerate(evs):
        if e["ev"] == "init":
            index.append([e["sid"], i + 1, []])
        index[-1][2].append(e)
    lives = kills_gate = 0
    nfault_seen, move_answers = [0], {}
    owner_out = {"refused": 0, "opened": 0}
    counted = set()
    for sid, _, es in index:
        sc = by_id[sid]
        hc = hist_class(sc)
        ords = ",".join("%s#%d" % (r["kill"]["kind"], r["kill"]["n"]) for r in sc["runs"])
        gate = any(re.match(r"(w|r|open)-", r["kill"]["kind"]) for r in sc["runs"])
        fam = sc.get("fam")
        if sid not in counted:      # (a session with several torrents yields one trace per torrent)
            counted.add(sid)
            ctx.count_case((sc["layout"], sc["unit"], hc, ords), gate or "del=" in hc or "pre=" in hc or len(sc["runs"]) >= 3 or fam in ("fault", "move", "multi", "readd", "owner"))
        if fam == "fault":
            ctx.oblig("C05.db(crash after a storage write fault)", sum(1 for e in es if e["ev"] == "crash"))
            ctx.oblig("C05.ahead(settled after a storage write fault)", sum(1 for i, e in enumerate(es) if e["ev"] == "settled" and any(x["ev"] == "wend" and not x["ok"] for x in es[:i])))
            nfault_seen[0] += sum(1 for e in es if e["ev"] == "wend" and not e["ok"])
        if fam == "move":
            ctx.oblig("C05.db(crash of the target of a move)", sum(1 for e in es if e["ev"] == "crash"))
            ctx.oblig("C05.ahead(settled after a move)", sum(1 for e in es if e["ev"] == "settled"))
            for e in es:
                if e["ev"] == "moveres":
                    move_answers[str(e["status"])] = move_answers.get(str(e["status"]), 0) + 1
        if fam == "readd":
            ctx.oblig("C05.db(crash of a life that re-added the torrent over an unloadable record)", sum(1 for i, e in enumerate(es) if e["ev"] == "crash" and any(x["ev"] == "damage" for x in es[:i])))
            ctx.oblig("C05.ahead(settled after a re-add over an unloadable record)", sum(1 for i, e in enumerate(es) if e["ev"] == "settled" and any(x["ev"] == "damage" for x in es[:i])))
        if fam == "owner":
            ctx.oblig("C05.osync(data file of another owner: refused, or opened O_SYNC)", sum(1 for e in es if e["ev"] in ("allocfail", "open")))
            owner_out["refused"] += sum(1 for e in es if e["ev"] == "allocfail")
            owner_out["opened"] += sum(1 for e in es if e["ev"] == "open" and e["existed"])
        if fam == "multi":
            ctx.oblig("C05.db(database copy at a tick, several torrents)", sum(1 for e in es if e["ev"] == "dbsnap"))
            ctx.oblig("C05.ahead(restart from a database copy)", sum(1 for i, e in enumerate(es) if e["ev"] == "settled" and any(x["ev"] == "rewind" for x in es[:i])))
        lives += sum(1 for e in es if e["ev"] == "up") if (fam != "multi" or es[0].get("tid", 0) == 0) else 0
        kills_gate += sum(1 for e in es if e["ev"] == "crash" and re.match(r"(w|r|open)-", e["point"]))
        ctx.oblig("C05.db(crash)", sum(1 for e in es if e["ev"] == "crash"))
        ctx.oblig("C05.reopen(restart)", sum(1 for e in es if e["ev"] == "up" and not e["fresh"]))
        ctx.oblig("C05.ahead(settled)", sum(1 for e in es if e["ev"] == "settled"))
        ctx.oblig("C05.ahead(settled, zero-hash pieces over planted files)", sum(1 for e in es if e["ev"] == "settled" and sc.get("pre") and sc["layout"].startswith("z")))
        ctx.oblig("C05.missing(settled after delete)", sum(1 for i, e in enumerate(es) if e["ev"] == "settled" and any(x["ev"] == "delete" and x["files"] for x in es[:i])))
        ctx.oblig("C05.osync(open)", sum(1 for e in es if e["ev"] in ("open", "osync")))
    ctx.extra["process_lives"] = lives
    ctx.extra["write_faults_injected"] = nfault_seen[0]
    ctx.extra["move_request_answers"] = move_answers
    ctx.extra["foreign_owned_files"] = owner_out
    fams = {}
    for sc in scs:
        fams[sc.get("fam", "?")] = fams.get(sc.get("fam", "?"), 0) + 1
    ctx.extra["scenarios_per_family"] = fams
    if not getattr(ctx, "replay", None):
        for fam, tag in (("fault", "C05.db(crash after a storage write fault)"), ("move", "C05.db(crash of the target of a move)"),
                         ("multi", "C05.db(database copy at a tick, several torrents)"),
                         ("readd", "C05.db(crash of a life that re-added the torrent over an unloadable record)"),
                         ("owner", "C05.osync(data file of another owner: refused, or opened O_SYNC)")):
            if fams.get(fam) and not ctx.obligation_counts.get(tag):
                raise vlib.MachineryError("family %s planned but obligation %s was never evaluated" % (fam, tag))
        if fams.get("fault") and nfault_seen[0] < 0.8 * fams["fault"]:
            raise vlib.MachineryError("write faults planned %d, injected %d" % (fams["fault"], nfault_seen[0]))
    ctx.extra["kills_at_storage_gates"] = kills_gate
    fb = {}
    for _, _, es in index:
        for e in es:
            if e["ev"] == "crash" and e["point"].startswith("idle:"):
                fb[e["point"]] = fb.get(e["point"], 0) + 1
    ctx.extra["kill_point_not_reached_fallbacks"] = fb      # leeching lives whose trigger could not occur (e.g. nothing left to download)
    ctx.extra["kill_points_seen"] = sorted({e["point"] for _, _, es in index for e in es if e["ev"] == "crash"})
    if index:
        ctx.sample({"scenario": {k: v for k, v in by_id[index[0][0]].items()}, "abstract_trace": index[0][2][:20]})
    return lambda: judge_traces(ctx, absf, index, evs, by_id)


def judge_traces(ctx, absf, index, evs, by_id):
    res = ctx.tlc_validate("Trace_Resume", absf, ntraces=len(index), timeout=ctx.pick(600, 2400))
    if res["hwm"] is not None and not res["ok"]:
        raise vlib.MachineryError("Trace_Resume could not explain line %s (%s):\n%s" % (res["hwm"], json.dumps(evs[res["hwm"]])[:300] if res["hwm"] < len(evs) else "", res["out"][-2500:]))
    seen = set()
    for tag, line in res["viols"]:
        hit = None
        for sid, first, es in index:
            if first <= line < first + len(es):
                hit = (sid, first, es)
        if not hit:
            raise vlib.MachineryError("violation line %d outside every scenario" % line)
        sid, first, es = hit
        sc = by_id[sid]
        ev = es[line - first]
        # which life of the scenario the event belongs to -> the history up to and including that life
        nlife = sum(1 for e in es[:line - first + 1] if e["ev"] == "up")
        hc = hist_class({"runs": sc["runs"][:max(1, nlife)], "pre": sc.get("pre"), "multi": sc.get("multi"), "move": sc.get("move")})
        if sc.get("multi"):
            hc += ";torrent=%s" % es[0].get("role")
        at = ev["ev"] + (":" + ev["point"] if ev["ev"] in ("crash", "dbsnap") else "")
        sig = "tag=%s hist=%s; at=%s" % (tag, hc, at)
        if tag.endswith(".recreated") and any(r.get("del") for r in sc["runs"]):
            # a claim on files that were created again without a completed re-check: the class is the life that found the
            # files missing and how it ended (every later observation of the same scenario is a consequence)
            first = min(i for i, r in enumerate(sc["runs"]) if r.get("del"))
            r0 = sc["runs"][first]
            sig = "tag=%s cause=%s;%s:%s" % (tag, "del=all" if r0["del"] == [-1] else "del=some", r0["mode"], r0["kill"]["kind"])
        if (sid, sig) in seen:
            continue
        seen.add((sid, sig))
        ctx.violation(tag, sig, "crash history violates %s at %s" % (tag, json.dumps(ev)[:300]),
                      {"scenario": sc, "abstract_trace": es[:line - first + 1]})
