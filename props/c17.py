"""C17 — configured resource limits hold at all times and reservations balance (module family Limits*).

The check is a LIST OF SUB-CHECKS (SUBCHECKS at the bottom); each one = exhaustive TLC run(s) of its design
module + a driver mode of harness/c17 on the real code + TLC trace validation of the recorded histories
(spec/LimitsTrace.tla holds the common acceptance machinery).  More sub-checks (session level: connection caps,
upload queue, request pipeline, web-seed caps, rate limits, generated configurations) are appended to SUBCHECKS
together with their REQUIRED obligation tags.

  rm     LimitsRM.tla (counting object) + LimitsRMProto.tla (goroutines/channels as rendezvous steps),
         MC_LimitsRM_*.cfg, Trace_LimitsRM        real internal/resourcemanager under concurrent callers (modes disc / pre /
         during / race = budget exhausted, the cancel channel of a queued request closes as another holder releases)
  cache  LimitsCache.tla (cache object) + LimitsCacheProto.tla (two locks, semaphore, TTL timers),
         MC_LimitsCache_*.cfg, Trace_LimitsCache  real internal/piececache: op sequences + gated concurrent readers
  addr   LimitsAddr.tla (counters) + LimitsAddrProto.tla (transcription of Push/Pop/Reset),
         MC_LimitsAddr*.cfg, Trace_LimitsAddr     real internal/addrlist: capacity and per-source counts only
  sem    LimitsSem.tla + LimitsSemProto.tla, MC_LimitsSem_*.cfg, Trace_LimitsSem   real internal/semaphore
  sess   LimitsSess.tla (bounds) + LimitsSessUQ / LimitsSessPL / LimitsSessWS (design models), Trace_LimitsSess:
         real torrent.Session on the shared harness vh (harness/c17/sess.go): upload queue, request pipeline, write cache,
         web-seed caps, rate limits, generated configurations (connection caps: check X03, tags C17.conn.*)
  (internal/bufferpool is a bare sync.Pool wrapper without counters or limits: nothing to judge for C17.)

Development aids (not part of the interface): C17_ONLY=rm,cache,... runs a subset; C17_SKIP_MC=1 skips the design-level
MC runs (they do not depend on /repo; used for mutation smoke tests).
"""
import json, os, re
import vlib

# ----------------------------------------------------------------------------------------------- helpers

def mc(ctx, module, cfg, **kw):
    """Design-level exhaustive run; C17_SKIP_MC=1 (development aid for mutation smoke tests: the design models do not
    depend on /repo) skips it."""
    if os.environ.get("C17_SKIP_MC"):
        return True, ""
    return ctx.tlc_mc(module, cfg, **kw)


def read_traces(path):
    """Split a driver output file into histories (lists of event dicts); each starts with an Init event."""
    traces, cur = [], None
    for line in open(path):
        line = line.strip()
        if not line:
            continue
        e = json.loads(line)
        if e.get("op") == "Init":
            cur = [e]
            traces.append(cur)
        elif cur is not None:
            cur.append(e)
    return traces


def normalise(traces, defaults):
    """Give every event every field (TLC records must have the fields the spec reads)."""
    out = []
    for t in traces:
        nt = []
        for e in t:
            d = dict(defaults)
            d.update(e)
            nt.append(d)
        out.append(nt)
    return out


def write_traces(path, traces):
    with open(path, "w") as fh:
        for t in traces:
            for e in t:
                fh.write(json.dumps(e, separators=(",", ":")) + "\n")


def run_driver(ctx, drv, sub, mode, n, ops, tag, timeout=900):
    out = ctx.path("%s-%s-%s.ndjson" % (sub, mode or "x", tag))
    r = ctx.run_drv(drv, ["-sub", sub, "-mode", mode, "-seed", str(ctx.seed * 100 + tag), "-n", str(n), "-ops", str(ops),
                          "-out", out], timeout=timeout)
    crashes = 0
    m = re.search(r'"crashes":(\d+)', r.stdout)
    if m:
        crashes = int(m.group(1))
    return out, crashes


def truncate_terminal(traces):
    """The driver stops recording a history at its first Hang/Crash line; drop stragglers logged after it."""
    out = []
    for t in traces:
        k = next((i for i, e in enumerate(t) if e["op"] in ("Hang", "Crash")), None)
        out.append(t if k is None else t[:k + 1])
    return out


def locate(traces, line):
    """history index and 0-based event position of the 1-based file line."""
    n = 0
    for i, t in enumerate(traces):
        if line <= n + len(t):
            return i, line - n - 1
        n += len(t)
    return len(traces) - 1, len(traces[-1])


def judge(ctx, module, traces, describe, chunk=400, timeout=900, max_lines=30000):
    """Validate histories with TLC (see spec/LimitsTrace.tla).  One strict run per chunk: violating paths are pruned,
    Hang/Crash lines yield @@VERDICT lines.  A history without clean explanation stops the strict run; it is re-judged
    alone with the diagnostic configuration, which tells a failed obligation (verdict) from a history that the
    specification cannot explain at all (machinery error).  `describe(trace, pos, tag)` -> (obligation, signature, text)."""
    traces = truncate_terminal(traces)
    end = [{"op": "End"}]
    # TLC cannot handle behaviours of 65536 or more states: a chunk is one behaviour of (lines + internal steps) states
    starts, n = [0], 0
    for i, t in enumerate(traces):
        if i > starts[-1] and (n + len(t) > max_lines or i - starts[-1] >= chunk):
            starts.append(i)
            n = 0
        n += len(t)
    for ci, start in enumerate(starts):
        stop = starts[ci + 1] if ci + 1 < len(starts) else len(traces)
        remaining = traces[start:stop]
        for attempt in range(60):
            if not remaining:
                break
            cur = ctx.path("cur.ndjson")
            write_traces(cur, remaining + [end])
            res = ctx.tlc_validate(module, cur, ntraces=len(remaining), timeout=timeout)
            hw = res["hwm"] if not res["ok"] else None
            seen = set()
            for m in re.finditer(r'@@VERDICT (\d+) ([^"\s]+)', res["out"]):
                line, tag = int(m.group(1)), m.group(2)
                if hw is not None and line > hw:
                    continue
                idx, pos = locate(remaining, line)
                if (idx, tag) in seen:
                    continue
                seen.add((idx, tag))
                obl, sig, text = describe(remaining[idx], pos, tag)
                ctx.violation(obl, sig, text, {"history": remaining[idx][max(0, pos - 40):pos + 1], "tlc_tag": tag, "position": pos})
            if res["ok"]:
                break
            if hw is None:
                raise vlib.MachineryError("%s: trace validation failed without position:\n%s" % (module, res["out"][-3000:]))
            idx, _ = locate(remaining, hw + 1)
            bad = remaining[idx]
            one = ctx.path("one.ndjson")
            write_traces(one, [bad, end])
            r1 = ctx.tlc_validate(module, one, cfg=module + "_diag.cfg", ntraces=0, timeout=timeout)
            if r1["ok"]:
                raise vlib.MachineryError("%s: strict pass rejected a history that the diagnostic pass accepts" % module)
            pos = r1["hwm"]
            mv = re.search(r'@@VIOL\s+(-?\d+)\s+(-?\d+)\s+(-?\d+)\s*([^"\s]*)', r1["out"])
            if not (mv and mv.group(4) and int(mv.group(1)) > pos):
                ev = bad[pos] if pos is not None and pos < len(bad) else {}
                raise vlib.MachineryError("%s: history not explained by the specification at event %s (%s) - driver/spec "
                                          "mismatch, not a verdict\n%s" % (module, pos, json.dumps(ev)[:300], r1["out"][-2500:]))
            tag = mv.group(4)
            vpos = max(0, int(mv.group(3)) - 1)
            obl, sig, text = describe(bad, vpos, tag)
            ctx.violation(obl, sig, text, {"history": bad[max(0, vpos - 40):vpos + 3], "tlc_tag": tag, "position": vpos})
            # histories before the rejected one were accepted in this run; continue behind it
            ctx.cov["traces_validated_against_impl"] += idx
            remaining = remaining[idx + 1:]
            nbad = ctx.extra.get("unexplained_histories", 0) + 1
            ctx.extra["unexplained_histories"] = nbad
            if nbad >= 4 and ctx.violations:
                # the verdict is settled (exit 1); every further violating history would cost two more TLC runs
                vlib.log("%s: %d histories with failed obligations reported; the remaining %d histories are not judged"
                         % (module, nbad, len(remaining) + len(traces) - stop))
                return
        else:
            raise vlib.MachineryError("too many violating histories in one chunk")


def selftest(ctx, module, traces, pick, mutate, expect):
    """Binding demonstration (./check C17 --selftest): corrupt one recorded field of an accepted history and require
    that TLC rejects it with the expected obligation tag."""
    if not getattr(ctx, "selftest", False):
        return
    import copy
    t = next((t for t in traces if pick(t) and not any(e["op"] in ("Hang", "Crash") for e in t)), None)
    if t is None:
        raise vlib.MachineryError("selftest %s: no suitable history" % module)
    t = copy.deepcopy(t)
    mutate(t)
    one = ctx.path("selftest.ndjson")
    write_traces(one, [t, [{"op": "End"}]])
    r = ctx.tlc_validate(module, one, cfg=module + "_diag.cfg", ntraces=0)
    mv = re.search(r'@@VIOL\s+(-?\d+)\s+(-?\d+)\s+(-?\d+)\s*([^"\s]*)', r["out"])
    got = mv.group(4) if (mv and not r["ok"]) else None
    if got is None:      # deterministic trace specs report a failed obligation as a verdict line and go on
        tags = [m.group(2) for m in re.finditer(r'@@VERDICT (\d+) ([^"\s]+)', r["out"])]
        got = next((x for x in tags if x.startswith(expect)), tags[0] if tags else None)
    if not got or not got.startswith(expect):
        raise vlib.MachineryError("selftest %s: corrupted history was not rejected with %s (%s)" % (module, expect, got))
    vlib.log("selftest %s: corrupted field rejected with %s" % (module, got))
    ctx.extra.setdefault("selftest", {})[module] = got


def count_histories(ctx, traces, keyf, nontrivial):
    for t in traces:
        ctx.count_case(keyf(t), nontrivial(t))


# ----------------------------------------------------------------------------------------------- RM

RM_DEFAULTS = {"g": 0, "f": "", "id": 0, "key": 0, "n": 0, "acq": False, "hung": 0, "nt": 0, "size": 0, "objects": 0,
               "pending": 0, "limit": 0, "ng": 1, "where": "", "msg": "", "mode": "", "nc": 0, "idx": 0, "sub": "rm"}


def rm_annotate(traces):
    """Copy the observed result of every call from its ret line onto the call line (the trace spec guesses only
    the POSITION of the linearization point); mark calls that never returned; mark requests that get notified."""
    notes = []
    out = []
    for t in traces:
        nt = [e for e in t if e.get("op") != "Note"]
        notes += [e for e in t if e.get("op") == "Note"]
        open_call = {}
        notified = {e["id"] for e in nt if e.get("op") == "Notified"}
        for e in nt:
            if e["op"] == "call":
                open_call[e["g"]] = e
                e["hung"] = 1
                if e["f"] == "Request" and e["id"] in notified:
                    e["nt"] = 1
            elif e["op"] == "ret":
                c = open_call.pop(e["g"], None)
                if c is None:
                    raise vlib.MachineryError("ret without call: %r" % e)
                c["hung"] = 0
                for k in ("acq", "size", "objects", "pending"):
                    if k in e:
                        c[k] = e[k]
        out.append(nt)
    return out, notes


def rm_describe(t, pos, tag):
    mode = t[0].get("mode")
    hang = next((e for e in t if e["op"] == "Hang"), None)
    crash = next((e for e in t if e["op"] == "Crash"), None)
    if tag == "C17.rm.handshake" and hang:
        cancel = "none"
        call_i = max(i for i, e in enumerate(t) if e["op"] == "call" and e["g"] == hang["g"])
        for i, e in enumerate(t):
            if e["op"] == "Cancel" and e["id"] == hang["id"] and hang["f"] == "Request":
                cancel = "pre" if i < call_i else "during"
        sig = "sub=rm tag=%s f=%s cancel=%s" % (tag, hang["f"], cancel)
        text = ("resourcemanager.%s never returned (cancel channel of the request closed %s the call; %s) - history %d of mode %s"
                % (hang["f"], {"pre": "BEFORE", "during": "DURING", "none": "NOT around"}[cancel], hang.get("where"), t[0]["idx"], mode))
        return tag, sig, text
    if tag == "C17.rm.crash" and crash:
        sig = "sub=rm tag=%s where=%s msg=%s" % (tag, crash.get("where"), crash.get("msg"))
        gvc = rm_cancelled_grants(t)
        return tag, sig, "resource manager crashed the process: %s at %s%s" % (
            crash.get("msg"), crash.get("where"),
            (" (after %d notification(s) for requests whose cancel channel had been closed, mode %s)" % (len(gvc), mode)) if gvc else "")
    ev = t[pos] if pos < len(t) else {}
    gvc = rm_cancelled_grants(t[:pos + 1])
    sig = "sub=rm tag=%s f=%s mode=%s limit=%s" % (tag, ev.get("f") or ev.get("op"), mode, t[0].get("limit"))
    text = "resource manager history violates %s near event %d: %s" % (tag, pos, json.dumps(ev)[:300])
    if gvc:
        sig += " after_grant_of_cancelled_request=yes"
        text += (" - earlier in this history %d notification(s) were delivered for queued requests whose cancel channel had been "
                 "closed (ids %s): such a grant must be charged like any other (C17.rm.grant_vs_cancel)" % (len(gvc), gvc[:5]))
    return tag, sig, text


def rm_cancelled_grants(t):
    """ids of requests that were notified after their Cancel line (both cases of the manager's select were ready)."""
    canc, out = set(), []
    for e in t:
        if e["op"] == "Cancel":
            canc.add(e["id"])
        elif e["op"] == "Notified" and e["id"] in canc:
            out.append(e["id"])
    return out


def check_rm(ctx, drv):
    # 1. design level.  The repaired protocol (caller always answered) is deadlock-free and refines the counting
    #    object for ALL interleavings incl. cancel-before-request, concurrent cancel and Close racing with calls;
    #    the protocol AS IT IS is fine under the strict calling discipline ...
    mc(ctx, "MC_LimitsRM", ctx.pick("MC_LimitsRM_fixedq.cfg", "MC_LimitsRM_fixed.cfg"), timeout=2400)
    mc(ctx, "MC_LimitsRM", "MC_LimitsRM_asis_disc.cfg", timeout=900)
    # grant vs cancel (C17.rm.grant_vs_cancel): under the strict calling discipline TLC reaches the state in which the send on
    # notifyC and the closed cancel channel of the drawn request are ready together, and the behaviour in which the send is
    # taken (witnesses: the "invariants" are expected to be violated); all clean configurations check ToldIsHeld
    for cfg, key in (("MC_LimitsRM_race.cfg", "rm_model_grant_vs_cancel_both_ready"), ("MC_LimitsRM_race2.cfg", "rm_model_cancelled_request_granted")):
        ok, out = mc(ctx, "MC_LimitsRM", cfg, timeout=900, expect_ok=False)
        if not os.environ.get("C17_SKIP_MC"):
            if ok or not re.search(r"Invariant (NoGrantCancelRace|NoCancelledHolder) is violated", out):
                raise vlib.MachineryError("MC_LimitsRM/%s: the grant-vs-cancel situation is not reachable in the model (vacuous)\n%s" % (cfg, out[-2000:]))
            ctx.extra[key] = "reachable (explored by TLC)"
    if not ctx.quick():
        mc(ctx, "MC_LimitsRM", "MC_LimitsRM_fixed5.cfg", timeout=1500)
        mc(ctx, "MC_LimitsRM", "MC_LimitsRM_live.cfg", timeout=900)
    # ... and the model of the code AS IT IS predicts a hang once a cancel channel is closed before the Request
    #     (informative: the verdict comes from the real manager below)
    ok, out = mc(ctx, "MC_LimitsRM", "MC_LimitsRM_asis.cfg", timeout=600, expect_ok=False)
    ctx.extra["rm_model_asis_precancel"] = "no error" if ok else ("violates " + ",".join(sorted(set(re.findall(r"Invariant (\w+) is violated", out)))) or "deadlock")
    if not ctx.quick():
        ok, out = mc(ctx, "MC_LimitsRM", "MC_LimitsRM_wakeup.cfg", timeout=600, expect_ok=False)
        ctx.extra["rm_model_lost_wakeup"] = "not reachable" if ok else "reachable (design observation, not an obligation of C17)"
        ok, out = mc(ctx, "MC_LimitsRM", "MC_LimitsRM_recheck.cfg", timeout=900, expect_ok=False)
        ctx.extra["rm_model_mutant_recheck_after_notify"] = ("not detected (model)" if ok else "violates " + ",".join(sorted(set(
            re.findall(r"Invariant (\w+) is violated", out)))) + " (model of a manager that does not charge a delivered notification of a cancelled request)")
        ok, out = mc(ctx, "MC_LimitsRM", "MC_LimitsRM_asis_close.cfg", timeout=600, expect_ok=False)
        ctx.extra["rm_model_asis_close_racing_with_request"] = ("no error" if ok else "manager can be left waiting in handleRequest for a caller that "
                                                                "returned through closeC, Close() then never returns (the session only closes the "
                                                                "manager after all torrents have stopped, so not reachable there; design observation)")
    # 2. the real manager
    ops = ctx.pick(10, 14)
    plan = [("disc", ctx.pick(200, 1500)), ("pre", ctx.pick(8, 40)), ("during", ctx.pick(40, 300)), ("race", ctx.pick(50, 300))]
    alltraces = []
    for k, (mode, n) in enumerate(plan):
        out, crashes = run_driver(ctx, drv, "rm", mode, n, ops, k)
        traces, _ = rm_annotate(read_traces(out))
        traces = normalise(traces, RM_DEFAULTS)
        for t in traces:
            key = tuple((e["op"], e["g"], e["f"], e["id"], e["n"], e["acq"], e["size"], e["pending"]) for e in t)
            ctx.count_case(("rm", t[0]["limit"], key), any(e["op"] == "call" and e["f"] == "Request" for e in t))
            ctx.oblig("C17.rm.limit", sum(1 for e in t if (e["op"] == "call" and e["f"] == "Request" and e["acq"]) or e["op"] == "Notified"))
            ctx.oblig("C17.rm.balance", sum(1 for e in t if e["op"] == "call" and e["f"] == "Stats"))
            ctx.oblig("C17.rm.handshake", sum(1 for e in t if e["op"] == "call"))
            ctx.oblig("C17.rm.notify", sum(1 for e in t if e["op"] == "Notified"))
            ctx.oblig("C17.rm.grant_vs_cancel", len(rm_cancelled_grants(t)))
            if mode == "race":
                ctx.extra["rm_race_cancelled_waiter_dropped"] = ctx.extra.get("rm_race_cancelled_waiter_dropped", 0) + len(
                    {e["id"] for e in t if e["op"] == "Cancel"} - {e["id"] for e in t if e["op"] == "Notified"})
            ctx.oblig("C17.rm.cancel_before_request", sum(1 for i, e in enumerate(t) if e["op"] == "call" and e["f"] == "Request"
                                                          and any(c["op"] == "Cancel" and c["id"] == e["id"] for c in t[:i])))
        if traces and mode == "disc":
            ctx.sample({"rm_history_prefix": traces[0][:10]})
        alltraces += traces
    judge(ctx, "Trace_LimitsRM", alltraces, rm_describe, chunk=500, max_lines=15000)

    if getattr(ctx, "selftest", False):
        # regression of the trace spec itself: a legal history that needs Drop(cancelled waiter) BEFORE the notifications
        # that the manager delivers between the call and the return of Stats (once wrongly rejected by a too eager reduction)
        def E(**k):
            d = dict(RM_DEFAULTS)
            d.update(k)
            return d
        h = [E(op="Init", limit=2, ng=4, mode="disc"),
             E(op="call", g=1, f="Request", id=1, key=1, n=2, acq=True), E(op="ret", g=1, f="Request", id=1, acq=True),
             E(op="call", g=1, f="Request", id=3, key=1, n=1), E(op="ret", g=1, f="Request", id=3),
             E(op="call", g=2, f="Request", id=5, key=2, n=1, nt=1), E(op="ret", g=2, f="Request", id=5),
             E(op="call", g=2, f="Request", id=6, key=2, n=1, nt=1),
             E(op="call", g=1, f="Release", id=1, key=1, n=2), E(op="ret", g=1, f="Release", id=1),
             E(op="Cancel", g=1, id=3),
             E(op="call", g=1, f="Stats", size=0, objects=0, pending=1),
             E(op="ret", g=2, f="Request", id=6),
             E(op="Notified", g=2, id=5), E(op="Notified", g=2, id=6),
             E(op="ret", g=1, f="Stats", size=0, objects=0, pending=1)]
        one = ctx.path("regress.ndjson")
        write_traces(one, [h, [{"op": "End"}]])
        if not ctx.tlc_validate("Trace_LimitsRM", one, ntraces=0)["ok"]:
            raise vlib.MachineryError("selftest Trace_LimitsRM: legal regression history rejected")

    def corrupt_rm(t):
        e = next(e for e in t if e["op"] == "call" and e["f"] == "Stats" and e["hung"] == 0)
        e["size"] += 1
    selftest(ctx, "Trace_LimitsRM", alltraces, lambda t: t[0]["mode"] == "disc" and any(e["op"] == "call" and e["f"] == "Stats" for e in t),
             corrupt_rm, "C17.rm.balance")
    # 3. measurement of the design observation on the real manager (never a verdict)
    out, _ = run_driver(ctx, drv, "rm", "wakeup", ctx.pick(12, 40), 0, 9)
    _, notes = rm_annotate(read_traces(out))
    lost = sum(1 for e in notes if e.get("notified") != 1)
    ctx.extra["rm_lost_wakeup_real"] = "%d of %d trials: a fitting waiter was not served until another event arrived" % (lost, len(notes))


# ----------------------------------------------------------------------------------------------- Cache

CACHE_DEFAULTS = {"g": 0, "f": "", "k": 0, "sz": 0, "ver": 0, "err": False, "size": 0, "rem": 0, "len": 0, "ents": [],
                  "heapok": True, "timersok": True, "active": 0, "waiting": 0, "max": 0, "par": 1, "ng": 1, "d": 0,
                  "shortttl": False, "idx": 0, "sub": "cache", "where": "", "msg": ""}


def cache_prepare(traces):
    return normalise(traces, CACHE_DEFAULTS)


def crash_class(msg):
    if "nil pointer" in msg:
        return "nilptr"
    if "index out of range" in msg:
        return "index-out-of-range"
    if "slice bounds out of range" in msg:
        return "slice-bounds"
    m = re.sub(r"[^A-Za-z ]+", "", msg.replace("panic: ", "")).strip().replace(" ", "-")
    return m[:60] or "panic"


def cache_describe(t, pos, tag):
    sub = t[0].get("sub")
    crash = next((e for e in t if e["op"] == "Crash"), None)
    if tag == "C17.cache.crash" and crash:
        sig = "sub=cache tag=%s class=%s where=%s" % (tag, crash_class(crash.get("msg", "")), crash.get("where"))
        text = ("piececache crashed the process (%s at %s) in history %d of %s with max=%d units (+%d bytes), par=%d, shortttl=%s"
                % (crash.get("msg"), crash.get("where"), t[0]["idx"], sub, t[0]["max"], t[0]["d"], t[0]["par"], t[0]["shortttl"]))
        return tag, sig, text
    ev = t[pos] if pos < len(t) else {}
    sig = "sub=%s tag=%s op=%s max=%s par=%s" % (sub, tag, ev.get("f") or ev.get("op"), t[0].get("max"), t[0].get("par"))
    return tag, sig, "piececache history violates %s at event %d: %s" % (tag, pos, json.dumps(ev)[:300])


def check_cache(ctx, drv):
    # design level: the repaired two-lock model keeps every invariant and refines the cache object ...
    mc(ctx, "MC_LimitsCache", "MC_LimitsCache_zero.cfg", timeout=2400)
    mc(ctx, "MC_LimitsCache", "MC_LimitsCache_q3.cfg", timeout=2400)
    if not ctx.quick():
        mc(ctx, "MC_LimitsCache", "MC_LimitsCache_q1.cfg", timeout=2400)
        mc(ctx, "MC_LimitsCache", "MC_LimitsCache_q2.cfg", timeout=1500)
        mc(ctx, "MC_LimitsCache", "MC_LimitsCache_zero_ttl.cfg", timeout=1500)
        mc(ctx, "MC_LimitsCache", "MC_LimitsCache_asis_fits.cfg", timeout=1500)
    # ... the model of the code AS IT IS predicts two crashes (informative; verdicts come from the real cache below)
    for cfg, key in (("MC_LimitsCache_asis_big.cfg", "cache_model_asis_value_larger_than_cache"),
                     ("MC_LimitsCache_asis_clear.cfg", "cache_model_asis_clear_vs_expired_timer")):
        ok, out = mc(ctx, "MC_LimitsCache", cfg, timeout=600, expect_ok=False)
        ctx.extra[key] = "no error" if ok else "violates " + ",".join(sorted(set(re.findall(r"Invariant (\w+) is violated", out))))
    # the real cache
    plan = [("cache", ctx.pick(120, 800), ctx.pick(14, 20)), ("cacheconc", ctx.pick(120, 600), 0)]
    alltraces = []
    for k, (sub, n, ops) in enumerate(plan):
        out, crashes = run_driver(ctx, drv, sub, "", n, ops, 20 + k)
        traces = cache_prepare(read_traces(out))
        ctx.extra["%s_child_crashes" % sub] = crashes
        for t in traces:
            key = tuple((e["op"], e["g"], e["k"], e["sz"], e["err"], e["size"]) for e in t)
            ctx.count_case((sub, t[0]["max"], t[0]["par"], key), any(e["op"] == "LoaderExit" for e in t))
            ctx.oblig("C17.cache.limit", sum(1 for e in t if e["op"] in ("Snap", "Poll")))
            ctx.oblig("C17.cache.balance", sum(1 for e in t if e["op"] == "Snap"))
            ctx.oblig("C17.cache.value", sum(1 for e in t if e["op"] == "ret"))
            ctx.oblig("C17.cache.parallel", sum(1 for e in t if e["op"] == "LoaderEnter"))
            ctx.oblig("C17.cache.smallcfg", 1 if t[0]["max"] <= 1 else 0)
        if traces:
            ctx.sample({sub + "_history_prefix": traces[0][:8]})
        alltraces += traces
    judge(ctx, "Trace_LimitsCache", alltraces, cache_describe, chunk=ctx.pick(400, 600))

    def corrupt_cache(t):
        e = next(e for e in t if e["op"] == "Snap" and e["ents"])
        e["size"] += 1
    selftest(ctx, "Trace_LimitsCache", alltraces, lambda t: any(e["op"] == "Snap" and e["ents"] for e in t), corrupt_cache, "C17.cache")


# ----------------------------------------------------------------------------------------------- AddrList

ADDR_DEFAULTS = {"src": 0, "n": 0, "has": False, "len": 0, "cnt": [0, 0, 0, 0, 0], "max": 0, "ng": 1, "idx": 0,
                 "sub": "addr", "where": "", "msg": ""}


def addr_prepare(traces):
    return normalise(traces, ADDR_DEFAULTS)


def addr_describe(t, pos, tag):
    crash = next((e for e in t if e["op"] == "Crash"), None)
    if tag == "C17.addr.crash" and crash:
        return tag, "sub=addr tag=%s class=%s where=%s" % (tag, crash_class(crash.get("msg", "")), crash.get("where")), \
            "addrlist crashed the process (%s at %s), max=%s" % (crash.get("msg"), crash.get("where"), t[0]["max"])
    ev = t[pos] if pos < len(t) else {}
    prev = t[pos - 1] if pos > 0 else {}
    return tag, "sub=addr tag=%s op=%s max=%s" % (tag, ev.get("op"), t[0].get("max")), \
        "addrlist counters violate %s at event %d: %s (before: len=%s cnt=%s)" % (tag, pos, json.dumps(ev)[:300], prev.get("len"), prev.get("cnt"))


def check_addr(ctx, drv):
    mc(ctx, "MC_LimitsAddr", ctx.pick("MC_LimitsAddr.cfg", "MC_LimitsAddr_push3.cfg"), timeout=600)
    mc(ctx, "MC_LimitsAddr", "MC_LimitsAddr_zero.cfg", timeout=600)
    out, crashes = run_driver(ctx, drv, "addr", "", ctx.pick(200, 2000), ctx.pick(25, 40), 40)
    traces = addr_prepare(read_traces(out))
    for t in traces:
        key = tuple((e["op"], e["src"], e["n"], e["has"], e["len"], tuple(e["cnt"])) for e in t)
        ctx.count_case(("addr", t[0]["max"], key), any(e["op"] == "Push" and e["len"] > 0 for e in t))
        ctx.oblig("C17.addr.limit", sum(1 for e in t if e["op"] == "Push"))
        ctx.oblig("C17.addr.balance", sum(1 for e in t if e["op"] in ("Push", "Pop", "Reset")))
        ctx.oblig("C17.addr.atcapacity", sum(1 for e in t if e["op"] == "Push" and e["len"] == t[0]["max"]))
    if traces:
        ctx.sample({"addr_history_prefix": traces[0][:8]})
    judge(ctx, "Trace_LimitsAddr", traces, addr_describe, chunk=1000)

    def corrupt_addr(t):
        e = next(e for e in t if e["op"] == "Push" and e["len"] > 0)
        e["cnt"] = list(e["cnt"])
        e["cnt"][e["src"] - 1] += 1
    selftest(ctx, "Trace_LimitsAddr", traces, lambda t: any(e["op"] == "Push" and e["len"] > 0 for e in t), corrupt_addr, "C17.addr.balance")


# ----------------------------------------------------------------------------------------------- Semaphore

SEM_DEFAULTS = {"g": 0, "f": "", "len": 0, "waiting": 0, "final": False, "cap": 1, "ng": 1, "idx": 0, "sub": "sem", "mode": "",
                "maxlen": 0, "minlen": 0, "maxinside": 0, "samples": 0, "finallen": 0, "finalwaiting": 0, "where": "", "msg": ""}


def sem_prepare(traces):
    return normalise(traces, SEM_DEFAULTS)


def sem_describe(t, pos, tag):
    ev = t[pos] if pos < len(t) else {}
    obl = tag
    if tag == "C17.sem.len.stress":       # terminal form of the same obligation (a stress history is its single Stress line)
        tag = "C17.sem.len.above" if ev.get("maxlen", 0) > t[0]["cap"] else "C17.sem.len.negative"
    if tag.startswith("C17.sem.len"):
        obl = "C17.sem.len"
    return obl, "sub=sem tag=%s op=%s mode=%s cap=%s" % (tag, ev.get("op"), t[0].get("mode"), t[0].get("cap")), \
        "semaphore history violates %s at event %d: %s" % (tag, pos, json.dumps(ev)[:300])


def check_sem(ctx, drv):
    mc(ctx, "MC_LimitsSem", "MC_LimitsSem_fixed.cfg", timeout=600)
    mc(ctx, "MC_LimitsSem", "MC_LimitsSem_asis_core.cfg", timeout=600)
    if not ctx.quick():
        ok, out = mc(ctx, "MC_LimitsSem", "MC_LimitsSem_asis.cfg", timeout=600, expect_ok=False)
        ctx.extra["sem_model_asis_len_gauge"] = ("within capacity" if ok else
                                                 "Len() can exceed the capacity for an instant in the model of Signal as it is (Release before "
                                                 "active--); on the real code the stress sampler sees it under load (obligation C17.sem.len)")
    out1, _ = run_driver(ctx, drv, "sem", "", ctx.pick(40, 200), 6, 50)
    out2, _ = run_driver(ctx, drv, "sem", "stress", ctx.pick(4, 12), ctx.pick(250, 1000), 51)
    traces = sem_prepare(read_traces(out1) + read_traces(out2))
    nsamples = 0
    for t in traces:
        key = tuple((e["op"], e["g"], e["f"], e["len"], e["waiting"]) for e in t)
        ctx.count_case(("sem", t[0]["cap"], key), any(e["op"] == "ret" and e["f"] == "Wait" for e in t) or t[0]["mode"] == "stress")
        ctx.oblig("C17.sem.limit", sum(1 for e in t if e["op"] == "ret" and e["f"] == "Wait"))
        ctx.oblig("C17.sem.len", sum(1 for e in t if e["op"] == "Obs"))
        nsamples += sum(e["samples"] for e in t if e["op"] == "Stress")
    ctx.extra["sem_stress_len_samples"] = nsamples
    judge(ctx, "Trace_LimitsSem", traces, sem_describe, chunk=400)

    def corrupt_sem(t):
        e = next(e for e in t if e["op"] == "Obs")
        e["len"] = t[0]["cap"] + 1
    selftest(ctx, "Trace_LimitsSem", traces, lambda t: any(e["op"] == "Obs" for e in t), corrupt_sem, "C17.sem.len.above")


# ----------------------------------------------------------------------------------------------- session level

SESS_DEFAULTS = {"sub": "", "idx": 0}


def sess_describe(t, pos, tag):
    c = t[0]
    sub = c.get("sub")
    ev = t[pos] if pos < len(t) else {}
    cfgs = {"uploadq": "cap=%s fast=%s" % (c.get("cap"), c.get("fast")),
            "pipeline": "reqq=%s maxout=%s fast=%s rej=%s" % (c.get("reqq"), c.get("maxout"), c.get("fast"), c.get("rej")),
            "ram": "limit=%s plens=%s" % (c.get("limit"), c.get("plens")),
            "webseed": "k=%s caps=%s capd=%s variant=%s" % (c.get("k"), c.get("caps"), c.get("capd"), c.get("variant")),
            "rate": "kind=%s rate=%s" % (c.get("kind"), c.get("rate")),
            "config": "row=%s" % c.get("idx")}.get(sub, "")
    if tag == "C17.sess.crash":
        crash = next((e for e in t if e["op"] == "Crash"), {})
        obl = "C17.%s.crash" % sub
        sig = "sub=%s tag=%s class=%s where=%s" % (sub, obl, crash_class(crash.get("msg", "")), crash.get("where"))
        return obl, sig, "session crashed (%s at %s) in %s scenario %s%s" % (crash.get("msg"), crash.get("where"), sub, cfgs,
                                                                               (" cfg=" + json.dumps(c.get("cfg"), sort_keys=True)) if sub == "config" else "")
    if tag == "C17.sess.hang":
        hang = next((e for e in t if e["op"] == "Hang"), {})
        obl = "C17.%s.hang" % sub
        sig = "sub=%s tag=%s what=%s %s" % (sub, obl, hang.get("what"), cfgs if sub != "config" else "")
        return obl, sig, "%s does not return / finish in %s scenario %s%s; blocked rain frames: %s" % (
            hang.get("what"), sub, cfgs, (" cfg=" + json.dumps(c.get("cfg"), sort_keys=True)) if sub == "config" else "", hang.get("where"))
    obl = tag
    extra = ""
    if tag == "C17.webseed.sources":
        extra = " observed=%s" % ev.get("sources")
    if tag.startswith("C17.webseed.active"):
        extra = " observed=%s" % ev.get("active")
    sig = "sub=%s tag=%s %s%s" % (sub, tag, cfgs, extra)
    return obl, sig, "%s scenario (%s) violates %s at event %d: %s" % (sub, cfgs, tag, pos, json.dumps(ev)[:300])


def sess_launch(ctx, drv):
    """Start all session-level drivers (children of harness/c17) concurrently; returns (executor, futures)."""
    import concurrent.futures as cf
    plan = []   # (sub, mode, first, n, tag)

    def shards(sub, total, k, mode="", base=0):
        per = (total + k - 1) // k
        for i in range(k):
            lo, hi = i * per, min(total, (i + 1) * per)
            if lo < hi:
                plan.append((sub, mode, lo, hi, base + i))
    shards("uploadq", 10, 5, base=100)
    shards("pipeline", ctx.pick(15, 45), ctx.pick(5, 9), base=110)
    shards("ram", ctx.pick(8, 16), 4, base=120)
    shards("webseed", ctx.pick(30, 60), 6, base=130)
    for j, m in enumerate(("down", "up", "ws")):
        shards("rate", ctx.pick(1, 3), ctx.pick(1, 3), mode=m, base=140 + 3 * j)
    shards("config", ctx.pick(30, 60), 6, base=150)

    def drive(item):
        sub, mode, lo, hi, tag = item
        out = ctx.path("sess-%s-%s-%d.ndjson" % (sub, mode or "x", tag))
        seed = ctx.seed * 100 + (tag if sub != "config" else 0)       # config: one covering array per check seed
        ctx.run_drv(drv, ["-sub", sub, "-mode", mode, "-seed", str(seed), "-first", str(lo), "-n", str(hi), "-out", out], timeout=900)
        return out
    ex = cf.ThreadPoolExecutor(max_workers=len(plan))
    return ex, [ex.submit(drive, it) for it in plan]


def check_sess(ctx, drv, launched=None):
    """Session-level limits on a real torrent.Session (shared harness vh): upload queue, request pipeline, write cache,
    web-seed caps, rate limits, generated configurations.  All drivers run concurrently (children of harness/c17; when the
    whole check runs they are started first and work while the manager-level sub-checks run); the small design models
    are checked meanwhile; one TLC run judges all histories."""
    q = ctx.quick()
    ex, futs = launched or sess_launch(ctx, drv)
    if True:
        # design level, while the drivers run
        for mod, cfg in (("LimitsSessUQ", "MC_LimitsSessUQ.cfg"), ("LimitsSessPL", "MC_LimitsSessPL.cfg"), ("LimitsSessWS", "MC_LimitsSessWS.cfg")):
            mc(ctx, mod, cfg, timeout=600)
        if not q:
            for mod, cfg in (("LimitsSessUQ", "MC_LimitsSessUQ_zero.cfg"), ("LimitsSessPL", "MC_LimitsSessPL_reqq.cfg"), ("LimitsSessPL", "MC_LimitsSessPL_q3.cfg"),
                             ("LimitsSessPL", "MC_LimitsSessPL_hostile_guard.cfg"), ("LimitsSessWS", "MC_LimitsSessWS_zero.cfg")):
                mc(ctx, mod, cfg, timeout=600)
            for mod, cfg, key in (("LimitsSessUQ", "MC_LimitsSessUQ_mut.cfg", "sess_model_uploadq_off_by_one"),
                                  ("LimitsSessUQ", "MC_LimitsSessUQ_cancelrej.cfg", "sess_model_uploadq_cancel_matches_reject"),
                                  ("LimitsSessPL", "MC_LimitsSessPL_mut.cfg", "sess_model_pipeline_off_by_one")):
                ok, _ = mc(ctx, mod, cfg, timeout=600, expect_ok=False)
                ctx.extra[key] = "not detected by the bound (model)" if ok else "violates the bound the scripted peer checks (model)"
        # the wire-level bound of the pipeline model: broken by a choke of a fast-extension peer that also re-queues the pending
        # blocks (mutation), and - the code AS IT IS - by a reject message for a request that is not open (hostile seeder)
        for cfg, key in (("MC_LimitsSessPL_requeue.cfg", "sess_model_pipeline_fast_choke_requeues"),
                         ("MC_LimitsSessPL_hostile_asis.cfg", "sess_model_asis_pipeline_reject_not_outstanding")):
            ok, _ = mc(ctx, "LimitsSessPL", cfg, timeout=600, expect_ok=False)
            ctx.extra[key] = "not detected by the bound (model)" if ok else "more requests open on the wire than the limit (model): a block is requested while its first request is still open"
        ok, _ = mc(ctx, "LimitsSessWS", "MC_LimitsSessWS_asis.cfg", timeout=600, expect_ok=False)
        ctx.extra["sess_model_asis_webseed_counter"] = "no error" if ok else "webseedActiveDownloads leaves [0, cap]: a corrupt piece frees a slot although its download has already ended"
        outs = [f.result() for f in futs]
        ex.shutdown()
    traces = []
    for o in outs:
        traces += read_traces(o)
    traces = normalise(traces, SESS_DEFAULTS)
    stalls = []
    for t in traces:
        c = t[0]
        sub = c["sub"]
        key = tuple((e["op"], e.get("i"), e.get("p"), e.get("b"), e.get("size"), e.get("active"), e.get("downloads")) for e in t)
        ctx.count_case((sub, json.dumps(c, sort_keys=True), key), len(t) > 2)
        if sub == "uploadq":
            ctx.oblig("C17.uploadq", sum(1 for e in t if e["op"] == "UQEnd") if c["rated"] and any(e["op"] == "UQMarker" for e in t) else 0)
            ctx.oblig("C17.uploadq.refused", sum(1 for e in t if e["op"] == "UQReject"))
        elif sub == "pipeline":
            ctx.oblig("C17.pipeline", sum(1 for e in t if e["op"] == "PLReq"))
            # open requests on the wire = a bag (as in Trace_LimitsSess): situations the obligation was evaluated in
            out, mx, ch, midchoke, reopened, rejected = [], 0, True, 0, 0, set()
            for e in t:
                if e["op"] == "PLUnchoke":
                    ch = False
                elif e["op"] == "PLChoke":
                    midchoke += 1 if out else 0
                    ch = True
                    if not c["fast"]:
                        out = []
                elif e["op"] == "PLReq" and not (ch and not c["fast"]):
                    out.append((e["p"], e["b"]))
                    mx = max(mx, len(out))
                    if (e["p"], e["b"]) in rejected and not ch:
                        reopened += 1
                elif e["op"] in ("PLPiece", "PLReject", "PLCancel"):
                    if (e["p"], e["b"]) in out:
                        out.remove((e["p"], e["b"]))
                    if e["op"] == "PLReject":
                        rejected.add((e["p"], e["b"]))
            lim = min(c["reqq"] if c["reqq"] > 0 else c["defout"], c["maxout"])
            ctx.oblig("C17.pipeline.atlimit", 1 if mx == lim else 0)
            ctx.oblig("C17.pipeline.choke_with_open_requests", midchoke)
            ctx.oblig("C17.pipeline.rejected_block_requested_again", reopened)
            if c.get("rej") == "dup":
                ctx.oblig("C17.pipeline.hostile_reject", sum(1 for e in t if e["op"] == "PLHostile"))
        elif sub == "ram":
            ctx.oblig("C17.ram", sum(1 for e in t if e["op"] in ("RamSnap", "RamStats", "RamRest")))
            ctx.oblig("C17.ram.contended", 1 if any(e["op"] == "RamStats" and e["pending"] > 0 for e in t) else 0)
            stalls += ["ram limit=%s torrent %d (piece fits) did not complete" % (c["limit"], e["tid"]) for e in t
                       if e["op"] == "RamDone" and e["fits"] and not e["complete"]]
        elif sub == "webseed":
            ctx.oblig("C17.webseed.active", sum(1 for e in t if e["op"] == "WsSnap"))
            ctx.oblig("C17.webseed.atcap", 1 if c["capd"] > 0 and any(e["op"] == "WsSnap" and e["ranges"] == c["capd"] for e in t) else 0)
            ctx.oblig("C17.webseed.sources", 1 if c["k"] > c["caps"] and any(e["op"] == "WsSnap" for e in t) else 0)
        elif sub == "rate":
            for e in t:
                if e["op"] == "RateBuckets":
                    ctx.oblig("C17.rate." + c["kind"], 1 if e["dur"] >= 2500 and e["bytes"] * 10 >= e["total"] * 8 else 0)
                    ctx.extra.setdefault("rate_runs", []).append({"kind": c["kind"], "rate": c["rate"], "bytes": e["bytes"], "ms": e["dur"]})
        elif sub == "config":
            ctx.oblig("C17.config", 1)
            ctx.oblig("C17.config.transfer", sum(1 for e in t if e["op"] == "CfgDone" and e["completed"]))
            for e in t:
                if e["op"] == "CfgDone" and e["started"] and not e["completed"] and (c["cfg"]["ParallelWrites"] == 0 or c["cfg"]["ParallelReads"] == 0):
                    stalls.append("config row %d: ParallelReads=%d ParallelWrites=%d: no progress (no crash, no blocked call)" % (
                        c["idx"], c["cfg"]["ParallelReads"], c["cfg"]["ParallelWrites"]))
    skips = [(t[0]["sub"], e.get("why"), e.get("status"), e.get("lasterr")) for t in traces for e in t if e["op"] == "Skip"]
    ctx.extra["sess_skipped_scenarios"] = ["%s: %s (status=%s err=%s)" % x for x in skips][:10]
    if len(skips) > max(2, len(traces) // 10):
        raise vlib.MachineryError("session level: %d of %d scenarios could not be set up: %r" % (len(skips), len(traces), skips[:5]))
    # design observations (never a verdict): a semaphore of size 0 blocks every read / write for ever
    ctx.extra["sess_stalls"] = stalls[:12]
    if traces:
        ctx.sample({"sess_history_prefix": traces[0][:6]})
    judge(ctx, "Trace_LimitsSess", traces, sess_describe, chunk=2000, max_lines=40000)

    def corrupt_ws(t):
        e = next(e for e in t if e["op"] == "WsSnap")
        e["active"] = t[0]["capd"] + 1
    selftest(ctx, "Trace_LimitsSess", traces, lambda t: t[0]["sub"] == "webseed" and t[0]["k"] <= t[0]["caps"] and any(e["op"] == "WsSnap" for e in t), corrupt_ws, "C17.webseed.active")


# ----------------------------------------------------------------------------------------------- registry

REQUIRED = {"rm": ("C17.rm.limit", "C17.rm.balance", "C17.rm.handshake", "C17.rm.notify", "C17.rm.cancel_before_request", "C17.rm.grant_vs_cancel"),
            "cache": ("C17.cache.limit", "C17.cache.balance", "C17.cache.value", "C17.cache.parallel", "C17.cache.smallcfg"),
            "addr": ("C17.addr.limit", "C17.addr.balance", "C17.addr.atcapacity"),
            "sem": ("C17.sem.limit", "C17.sem.len"),
            "sess": ("C17.uploadq", "C17.uploadq.refused", "C17.pipeline", "C17.pipeline.atlimit", "C17.pipeline.choke_with_open_requests",
                     "C17.pipeline.rejected_block_requested_again", "C17.ram", "C17.ram.contended",
                     "C17.webseed.active", "C17.webseed.atcap", "C17.rate.down", "C17.rate.up", "C17.rate.ws", "C17.config")}

def check_conn(ctx, drv):
    """connection caps / 'a connection whose handshake fails is closed' — the connection model of check X03 (Connect.tla)"""
    import x03
    x03.conn_subcheck(ctx)


SUBCHECKS = [("rm", check_rm), ("cache", check_cache), ("addr", check_addr), ("sem", check_sem), ("sess", check_sess), ("conn", check_conn)]


def run(ctx):
    ctx.level = "model_checking"
    ctx.cov["rule"] = ("operation histories of the real managers (resourcemanager, piececache, addrlist, semaphore); a history is "
                       "non-trivial if it contains at least one reserving call; distinct = distinct sequences of (op, args, result)")
    ctx.assumptions += ["manager-level sub-models only: callers are harness goroutines playing the torrent loop's calling discipline",
                        "hang verdicts need structural evidence (goroutine dump: caller blocked, manager idle in its main select) "
                        "or 5 s without any progress"]
    drv = ctx.build_go("c17")
    only = os.environ.get("C17_ONLY")
    selected = [(name, fn) for name, fn in SUBCHECKS if not (only and name not in only.split(","))]
    launched = None
    if os.environ.get("C17_OVERLAP") and len(selected) > 1 and any(name == "sess" for name, _ in selected):
        # optional: start the scripted-peer scenarios first and let them run during the model checking (saves ~30 s, but
        # TLC on all cores delays the sessions under test; off by default to keep the scenarios undisturbed)
        launched = sess_launch(ctx, drv)
    for name, fn in selected:
        vlib.log("C17 sub-check", name)
        if name == "sess":
            fn(ctx, drv, launched)
        else:
            fn(ctx, drv)
        # vacuity guard: every core obligation of the sub-check must have been evaluated on real-code events
        for tag in REQUIRED.get(name, ()):
            # (a crash / violation found by the sub-check may be the very reason why an obligation was not reached: the
            # verdict stands, the guard only speaks when nothing was found)
            if ctx.obligation_counts.get(tag, 0) == 0 and not ctx.violations:
                raise vlib.MachineryError("sub-check %s: obligation %s was never evaluated" % (name, tag))
