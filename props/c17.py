"""C17 — configured resource limits hold at all times and reservations balance (module family Limits*).

The check is a LIST OF SUB-CHECKS (SUBCHECKS at the bottom); each one = exhaustive TLC run(s) of its design
module + a driver mode of harness/c17 on the real code + TLC trace validation of the recorded histories.
More sub-checks (session level) are appended to SUBCHECKS.

  rm     spec/LimitsRM.tla (counting object) + LimitsRMProto.tla (goroutines/channels as rendezvous steps)
         MC_LimitsRM_*.cfg, Trace_LimitsRM        real internal/resourcemanager under concurrent callers
  cache  spec/LimitsCache.tla (two-lock level)   MC_LimitsCache_*.cfg, Trace_LimitsCache
  addr   spec/LimitsAddr.tla                      MC_LimitsAddr.cfg, Trace_LimitsAddr
  sem    spec/LimitsSem.tla                       MC_LimitsSem.cfg, Trace_LimitsSem
"""
import json, os, re
import vlib

# ----------------------------------------------------------------------------------------------- helpers

def read_traces(path):
    """Split a driver output file into histories (lists of event dicts); each starts with an Init event."""
    traces, cur = [], None
    for line in open(path):
        line = line.strip()
        if not line:
            continue
        e = json.loads(line)
        if e.get("op") == "Init":
            cur = [e]
            traces.append(cur)
        elif cur is not None:
            cur.append(e)
    return traces


def normalise(traces, defaults):
    """Give every event every field (TLC records must have the fields the spec reads)."""
    out = []
    for t in traces:
        nt = []
        for e in t:
            d = dict(defaults)
            d.update(e)
            nt.append(d)
        out.append(nt)
    return out


def write_traces(path, traces):
    with open(path, "w") as fh:
        for t in traces:
            for e in t:
                fh.write(json.dumps(e, separators=(",", ":")) + "\n")


def run_driver(ctx, drv, sub, mode, n, ops, tag, timeout=900):
    out = ctx.path("%s-%s-%s.ndjson" % (sub, mode or "x", tag))
    r = ctx.run_drv(drv, ["-sub", sub, "-mode", mode, "-seed", str(ctx.seed * 100 + tag), "-n", str(n), "-ops", str(ops),
                          "-out", out], timeout=timeout)
    crashes = 0
    m = re.search(r'"crashes":(\d+)', r.stdout)
    if m:
        crashes = int(m.group(1))
    return out, crashes


def judge(ctx, module, traces, describe, chunk=400, timeout=900):
    """Validate histories with TLC (existential acceptance, see Trace_LimitsRM.tla).  `describe(trace, pos, tag)`
    returns (obligation_tag, signature, text) for a history that can only be explained with a failed obligation."""
    for start in range(0, len(traces), chunk):
        remaining = traces[start:start + chunk]
        for attempt in range(40):
            if not remaining:
                break
            cur = ctx.path("cur.ndjson")
            write_traces(cur, remaining)
            res = ctx.tlc_validate(module, cur, ntraces=len(remaining), timeout=timeout)
            if res["ok"]:
                break
            hw = res["hwm"]
            if hw is None:
                raise vlib.MachineryError("%s: trace validation failed without position:\n%s" % (module, res["out"][-3000:]))
            # locate the history containing line hw+1 (the first line no clean path could pass)
            n = 0
            idx = None
            for i, t in enumerate(remaining):
                if n + len(t) >= hw + 1 or i == len(remaining) - 1:
                    idx = i
                    break
                n += len(t)
            # a clean path that stops exactly at the next Init line means the PREVIOUS history ended dirty
            bad = remaining[idx]
            pos = hw - n            # number of lines of `bad` consumed by a clean path
            if pos >= len(bad) and idx + 1 < len(remaining):
                pass
            mv = re.search(r'@@VIOL\s+(-?\d+)\s+(-?\d+)\s*([^"\s]*)', res["out"])
            tag = None
            if res["invariant"] is not None:
                ms = re.search(r'viol = "([^"]*)"', res["state"] or "")
                tag = (ms.group(1) if ms and ms.group(1) else "C17.inv." + res["invariant"])
            elif mv and mv.group(3) and int(mv.group(1)) > hw:
                tag = mv.group(3)
            if tag is None:
                ev = bad[pos] if pos < len(bad) else {}
                raise vlib.MachineryError("%s: history not explained by the specification at line %d (%s) - driver/spec "
                                          "mismatch, not a verdict\n%s" % (module, hw + 1, json.dumps(ev)[:300], res["out"][-2500:]))
            obl, sig, text = describe(bad, pos, tag)
            ctx.violation(obl, sig, text, {"history": bad[:pos + 6], "tlc_tag": tag, "position": pos})
            remaining = remaining[:idx] + remaining[idx + 1:]
        else:
            raise vlib.MachineryError("too many violating histories in one chunk")


def count_histories(ctx, traces, keyf, nontrivial):
    for t in traces:
        ctx.count_case(keyf(t), nontrivial(t))


# ----------------------------------------------------------------------------------------------- RM

RM_DEFAULTS = {"g": 0, "f": "", "id": 0, "key": 0, "n": 0, "acq": False, "hung": 0, "nt": 0, "size": 0, "objects": 0,
               "pending": 0, "limit": 0, "ng": 1, "where": "", "msg": "", "mode": "", "nc": 0, "idx": 0, "sub": "rm"}


def rm_annotate(traces):
    """Copy the observed result of every call from its ret line onto the call line (the trace spec guesses only
    the POSITION of the linearization point); mark calls that never returned; mark requests that get notified."""
    notes = []
    out = []
    for t in traces:
        nt = [e for e in t if e.get("op") != "Note"]
        notes += [e for e in t if e.get("op") == "Note"]
        open_call = {}
        notified = {e["id"] for e in nt if e.get("op") == "Notified"}
        for e in nt:
            if e["op"] == "call":
                open_call[e["g"]] = e
                e["hung"] = 1
                if e["f"] == "Request" and e["id"] in notified:
                    e["nt"] = 1
            elif e["op"] == "ret":
                c = open_call.pop(e["g"], None)
                if c is None:
                    raise vlib.MachineryError("ret without call: %r" % e)
                c["hung"] = 0
                for k in ("acq", "size", "objects", "pending"):
                    if k in e:
                        c[k] = e[k]
        out.append(nt)
    return out, notes


def rm_describe(t, pos, tag):
    mode = t[0].get("mode")
    hang = next((e for e in t if e["op"] == "Hang"), None)
    crash = next((e for e in t if e["op"] == "Crash"), None)
    if tag == "C17.rm.handshake" and hang:
        cancel = "none"
        call_i = max(i for i, e in enumerate(t) if e["op"] == "call" and e["g"] == hang["g"])
        for i, e in enumerate(t):
            if e["op"] == "Cancel" and e["id"] == hang["id"] and hang["f"] == "Request":
                cancel = "pre" if i < call_i else "during"
        sig = "sub=rm tag=%s f=%s cancel=%s" % (tag, hang["f"], cancel)
        text = ("resourcemanager.%s never returned (cancel channel of the request closed %s the call; %s) - history %d of mode %s"
                % (hang["f"], {"pre": "BEFORE", "during": "DURING", "none": "NOT around"}[cancel], hang.get("where"), t[0]["idx"], mode))
        return tag, sig, text
    if tag == "C17.rm.crash" and crash:
        sig = "sub=rm tag=%s where=%s msg=%s" % (tag, crash.get("where"), crash.get("msg"))
        return tag, sig, "resource manager crashed the process: %s at %s" % (crash.get("msg"), crash.get("where"))
    ev = t[pos] if pos < len(t) else {}
    sig = "sub=rm tag=%s f=%s mode=%s limit=%s" % (tag, ev.get("f") or ev.get("op"), mode, t[0].get("limit"))
    return tag, sig, "resource manager history violates %s near event %d: %s" % (tag, pos, json.dumps(ev)[:300])


def check_rm(ctx, drv):
    # 1. design level.  The repaired protocol (caller always answered) is deadlock-free and refines the counting
    #    object for ALL interleavings incl. cancel-before-request, concurrent cancel and Close racing with calls;
    #    the protocol AS IT IS is fine under the strict calling discipline ...
    ctx.tlc_mc("MC_LimitsRM", "MC_LimitsRM_fixed.cfg", timeout=900)
    ctx.tlc_mc("MC_LimitsRM", "MC_LimitsRM_asis_disc.cfg", timeout=900)
    if not ctx.quick():
        ctx.tlc_mc("MC_LimitsRM", "MC_LimitsRM_fixed5.cfg", timeout=1500)
        ctx.tlc_mc("MC_LimitsRM", "MC_LimitsRM_live.cfg", timeout=900)
    # ... and the model of the code AS IT IS predicts a hang once a cancel channel is closed before the Request
    #     (informative: the verdict comes from the real manager below)
    ok, out = ctx.tlc_mc("MC_LimitsRM", "MC_LimitsRM_asis.cfg", timeout=600, expect_ok=False)
    ctx.extra["rm_model_asis_precancel"] = "no error" if ok else ("violates " + ",".join(sorted(set(re.findall(r"Invariant (\w+) is violated", out)))) or "deadlock")
    ok, out = ctx.tlc_mc("MC_LimitsRM", "MC_LimitsRM_wakeup.cfg", timeout=600, expect_ok=False)
    ctx.extra["rm_model_lost_wakeup"] = "not reachable" if ok else "reachable (design observation, not an obligation of C17)"
    # 2. the real manager
    ops = ctx.pick(10, 14)
    plan = [("disc", ctx.pick(150, 1500)), ("pre", ctx.pick(40, 300)), ("during", ctx.pick(60, 600))]
    for k, (mode, n) in enumerate(plan):
        out, crashes = run_driver(ctx, drv, "rm", mode, n, ops, k)
        traces, _ = rm_annotate(read_traces(out))
        traces = normalise(traces, RM_DEFAULTS)
        for t in traces:
            key = tuple((e["op"], e["g"], e["f"], e["id"], e["n"], e["acq"], e["size"], e["pending"]) for e in t)
            ctx.count_case(("rm", t[0]["limit"], key), any(e["op"] == "call" and e["f"] == "Request" for e in t))
            ctx.oblig("C17.rm.limit", sum(1 for e in t if (e["op"] == "call" and e["f"] == "Request" and e["acq"]) or e["op"] == "Notified"))
            ctx.oblig("C17.rm.balance", sum(1 for e in t if e["op"] == "call" and e["f"] == "Stats"))
            ctx.oblig("C17.rm.handshake", sum(1 for e in t if e["op"] == "call"))
            ctx.oblig("C17.rm.notify", sum(1 for e in t if e["op"] == "Notified"))
        if traces:
            ctx.sample({"rm_history_prefix": traces[0][:10]})
        judge(ctx, "Trace_LimitsRM", traces, rm_describe)
    # 3. measurement of the design observation on the real manager (never a verdict)
    out, _ = run_driver(ctx, drv, "rm", "wakeup", ctx.pick(12, 40), 0, 9)
    _, notes = rm_annotate(read_traces(out))
    lost = sum(1 for e in notes if e.get("notified") != 1)
    ctx.extra["rm_lost_wakeup_real"] = "%d of %d trials: a fitting waiter was not served until another event arrived" % (lost, len(notes))
    if ctx.obligation_counts.get("C17.rm.notify", 0) == 0:
        raise vlib.MachineryError("rm: no notification was ever exercised")


# ----------------------------------------------------------------------------------------------- registry

SUBCHECKS = [("rm", check_rm)]


def run(ctx):
    ctx.level = "model_checking"
    ctx.cov["rule"] = ("operation histories of the real managers (resourcemanager, piececache, addrlist, semaphore); a history is "
                       "non-trivial if it contains at least one reserving call; distinct = distinct sequences of (op, args, result)")
    ctx.assumptions += ["manager-level sub-models only: callers are harness goroutines playing the torrent loop's calling discipline",
                        "hang verdicts need structural evidence (goroutine dump: caller blocked, manager idle in its main select) "
                        "or 5 s without any progress"]
    drv = ctx.build_go("c17")
    only = os.environ.get("C17_ONLY")
    for name, fn in SUBCHECKS:
        if only and name not in only.split(","):
            continue
        vlib.log("C17 sub-check", name)
        fn(ctx, drv)
