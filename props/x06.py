"""X06 — web-seed source lifecycle and buffer ownership (spec/Webseed.tla, MC_WebseedAlg, MC_Webseed, MC_WebseedGen,
Trace_Webseed, Trace_WebseedSess; driver harness/x06).

Specification-coverage extension (not one of the 20 listed properties; not in MANIFEST.json).
1. design level: the algorithm of urldownloader.Run against the envelope of one run in every interleaving with the
   server / consumer / WebseedStopAt / Close (MC_WebseedAlg: the repaired algorithm passes on four geometries; the
   algorithm as it is fails with the predicted tags only); the sources of a torrent in the event loop (MC_Webseed:
   counter exact, a disabled source is idle, buffer ledger; liveness of the retry - holds for the repaired handler,
   fails for the handler as it is).
2. implementation -> specification, unit: the REAL URLDownloader.Run driven through gates (harness/x06 unit) on
   TLC-simulated histories (MC_WebseedGen) and seeded random ones, judged by Trace_Webseed in one TLC pass.
3. implementation -> specification, session: real torrent.Session scenarios (harness/x06 e2e) judged by Trace_WebseedSess.
"""
import json, os, re
import vlib

PREDICTED = {"X06.a.owner", "X06.a.double", "X06.a.leak", "X06.f.unneeded", "X06.b.afterfinal", "X06.b.order",
             "X06.f.status", "X06.f.afterfail"}
GEOS = ["pad", "two", "mid", "one"]


def run(ctx):
    ctx.level = "model_checking"
    ctx.cov["rule"] = ("unit: input histories of one URLDownloader.Run (answers, chunks, read failures, WebseedStopAt, Close, consumer "
                       "steps) on generated torrents; non-trivial = at least two pieces delivered or a StopAt / Close / HTTP failure "
                       "met a running download; distinct = distinct event sequences.  session: scripted web seeds + peers against a "
                       "real Session; distinct = distinct (scenario, outcome) classes")
    ctx.assumptions += ["unit part: the http.Client handed to Run has a gating RoundTripper in front of a real http.Transport and a real "
                        "httptest server; the bytes of a body pass the gate in the chunks the driver chooses (a Read never returns more "
                        "than asked: the chunking of the network is replaced by the driver's)",
                        "the pool is observed by keeping it empty (GOMAXPROCS(1), GC off during a scenario): sync.Pool's own behaviour "
                        "(per-P caches, victim cache) is not exercised",
                        "X06.c overshoot: one piece beyond a StopAt is tolerated when the Done flag of the previous piece had been "
                        "computed before the StopAt (result blocked in the send); the torrent loop discards or absorbs that piece"]
    runner = None
    if not os.environ.get("VERIF_SKIP_MC"):       # development knob (mutation runs change the implementation only)
        runner = design_level(ctx)                # runs in the background
    try:
        unit(ctx)
        if not os.environ.get("VERIF_SKIP_E2E"):
            import x06_e2e
            x06_e2e.session(ctx)
    finally:
        if runner:
            runner.join()


# --------------------------------------------------------------------------------------------------------- 1. design level
class Runner:
    """The exhaustive runs are independent of each other and of the drivers: they run in worker threads (TLC processes),
    the bookkeeping of ctx is done afterwards in the main thread."""

    def __init__(self, ctx, par):
        import threading
        from concurrent.futures import ThreadPoolExecutor
        self.ctx, self.lock = ctx, threading.Lock()
        self.pool = ThreadPoolExecutor(max_workers=par)
        self.jobs = []

    def _run(self, module, cfg, timeout, workers):
        ctx = self.ctx
        with self.lock:
            d = ctx._spec_copy()
        rc, out, dt = ctx._tlc(d, module + ".tla", cfg, [], timeout, workers, {})
        return rc, out, dt

    def add(self, module, cfg, check, timeout=900, workers=3):
        """check(ok, out) raises MachineryError if the outcome is not the expected one"""
        self.jobs.append((module, cfg, check, self.pool.submit(self._run, module, cfg, timeout, workers)))

    def join(self):
        ctx = self.ctx
        err = None
        for module, cfg, check, fut in self.jobs:
            try:
                rc, out, dt = fut.result()
            except vlib.MachineryError as ex:
                err = err or ex
                continue
            gen, dist, depth = ctx._parse_counts(out)
            ok = rc == 0 and "Model checking completed. No error has been found" in out
            ctx.mc_runs.append({"module": module, "cfg": cfg, "generated": gen, "distinct": dist, "depth": depth, "ok": ok,
                                "wall_s": round(dt, 1)})
            ctx.cov["states"] += dist
            ctx.cov["transitions"] += gen
            vlib.log("TLC MC %s/%s: %d generated, %d distinct, depth %d, %.1fs, ok=%s" % (module, cfg, gen, dist, depth, dt, ok))
            try:
                check(ok, out)
            except vlib.MachineryError as ex:
                err = err or ex
        self.pool.shutdown()
        if err:
            raise err


def design_level(ctx):
    r = Runner(ctx, ctx.pick(4, 5))

    def passes(name):
        def chk(ok, out):
            if not ok:
                raise vlib.MachineryError("TLC model checking of %s failed (design-level spec error):\n%s" % (name, out[-5000:]))
        return chk

    def fails_with(name, needle):
        def chk(ok, out):
            if ok or needle not in out:
                raise vlib.MachineryError("%s: expected '%s':\n%s" % (name, needle, out[-3000:]))
        return chk

    def asis(ok, out):
        pred = set(re.findall(r'av = \{([^}]*)\}', out)[-1].replace('"', "").replace(" ", "").split(",")) if not ok else set()
        if ok or not pred or not pred <= PREDICTED:
            raise vlib.MachineryError("MC_WebseedAlg_asis: expected a counterexample with tags in %s, got ok=%s tags=%s" % (PREDICTED, ok, pred))
        ctx.extra["design_level_prediction_asis"] = sorted(pred)

    def asis_live(ok, out):
        fails_with("MC_Webseed_asis_live", "MRetryNotForgotten was violated")(ok, out)
        ctx.extra["design_level_prediction_retry_asis"] = ("RetryNotForgotten violated (the retry fires while the torrent is stopped / "
                                                           "no slot is free: the source stays disabled)")

    A, W = "MC_WebseedAlg", "MC_Webseed"
    r.add(A, "MC_WebseedAlg_fixed.cfg", passes("MC_WebseedAlg_fixed"))
    r.add(A, "MC_WebseedAlg_fixed_two.cfg", passes("MC_WebseedAlg_fixed_two"))
    r.add(A, "MC_WebseedAlg_asis_known.cfg", passes("MC_WebseedAlg_asis_known"))
    r.add(A, "MC_WebseedAlg_asis.cfg", asis)
    # vacuity of the algorithm model: a full range is delivered, a tolerated overshoot happens
    r.add(A, "MC_WebseedAlg_vac_full.cfg", fails_with("MC_WebseedAlg_vac_full", "Invariant NeverFull is violated"))
    r.add(A, "MC_WebseedAlg_vac_over.cfg", fails_with("MC_WebseedAlg_vac_over", "Invariant NeverOver is violated"))
    # the sources in the loop: invariants + liveness of the retry (2 pieces, 2 sources); a retried source is reachable
    r.add(W, "MC_Webseed_fixed_live.cfg", passes("MC_Webseed_fixed_live"))
    r.add(W, "MC_Webseed_asis_live.cfg", asis_live)
    r.add(W, "MC_Webseed_vac.cfg", fails_with("MC_Webseed_vac", "Invariant NeverRetried is violated"))
    if not ctx.quick():
        r.add(A, "MC_WebseedAlg_fixed_live.cfg", passes("MC_WebseedAlg_fixed_live"))
        for g in ("mid", "one"):
            r.add(A, "MC_WebseedAlg_fixed_%s.cfg" % g, passes("MC_WebseedAlg_fixed_" + g))
        r.add(A, "MC_WebseedAlg_asis_known_two.cfg", passes("MC_WebseedAlg_asis_known_two"))
        r.add(W, "MC_Webseed_fixed.cfg", passes("MC_Webseed_fixed"), timeout=1800, workers=4)
        r.add(W, "MC_Webseed_asis.cfg", passes("MC_Webseed_asis"), timeout=1800, workers=4)
        r.add(W, "MC_Webseed_fixed_3src.cfg", passes("MC_Webseed_fixed_3src"), timeout=2400, workers=4)
    return r


# --------------------------------------------------------------------------------------------------------- 2. unit
def unit(ctx):
    items = []
    per = ctx.pick(40, 300)
    import threading
    from concurrent.futures import ThreadPoolExecutor
    lock = threading.Lock()

    def gen(g):
        with lock:
            d = ctx._spec_copy()
        rc, out, dt = ctx._tlc(d, "MC_WebseedGen.tla", "MC_WebseedGen_%s.cfg" % g,
                               ["-simulate", "num=%d" % per, "-depth", "200", "-seed", str(ctx.seed)], 900, 1)
        its = []
        for line in out.splitlines():
            line = line.strip()
            if line.startswith('"@@'):
                its.append(json.loads(json.loads(line)[2:]))
        vlib.log("TLC GEN MC_WebseedGen_%s: %d items, %.1fs rc=%d" % (g, len(its), dt, rc))
        if rc != 0 and not its:
            raise vlib.MachineryError("TLC generator MC_WebseedGen_%s failed:\n%s" % (g, out[-4000:]))
        return its
    with ThreadPoolExecutor(max_workers=4) as ex:
        for its in ex.map(gen, GEOS):
            items += its
    if len(items) < ctx.pick(100, 800):
        raise vlib.MachineryError("MC_WebseedGen produced only %d histories" % len(items))
    sp = ctx.path("scripts.ndjson")
    vlib.write_ndjson(sp, items)
    ctx.extra["tlc_generated_histories"] = len(items)
    drv = ctx.build_go("x06")
    ctx._x06_drv = drv
    tp = ctx.path("trace.ndjson")
    r = ctx.run_drv(drv, ["unit", "-seed", str(ctx.seed), "-scripts", sp, "-n", str(ctx.pick(500, 6000)), "-shards", str(ctx.pick(4, 8)),
                          "-out", tp], timeout=1500)
    ctx.extra["driver_unit"] = json.loads(r.stdout.strip().splitlines()[-1])
    judge(ctx, tp)


def split(path):
    traces, cur = [], []
    for line in open(path):
        e = json.loads(line)
        if e["op"] == "Init":
            if cur:
                traces.append(cur)
            cur = []
        cur.append(e)
    if cur:
        traces.append(cur)
    return traces


def nontrivial(t):
    nd = sum(1 for e in t if e["op"] == "Deliver" and not e["err"])
    return nd >= 2 or any(e["op"] in ("StopAt", "Close") and e.get("st") in ("req", "read", "send") for e in t) \
        or any(e["op"] == "Deliver" and e["err"] for e in t)


def stats(traces):
    c = {}

    def inc(k, n=1):
        c[k] = c.get(k, 0) + n
    for t in traces:
        ini = t[0]
        inc("traces")
        inc("kind." + ini["kind"])
        if ini["multi"]:
            inc("multi")
        if any(f[2] for f in ini["files"]):
            inc("padding")
        # a file boundary strictly inside a piece of the range
        pl = ini["pl"]
        if any(f[0] % pl != 0 and ini["b"] * pl < f[0] < min(ini["e"] * pl, ini["total"]) for f in ini["files"]):
            inc("boundary_inside_piece")
        for k, e in enumerate(t):
            op = e["op"]
            if op == "StopAt":
                inc("stopat.close" if e["closed"] else "stopat.trunc")
                if not e["closed"] and e["insend"] and e["cur"] == e["i"] - 1 and \
                        any(x["op"] == "Deliver" and not x["err"] and x["idx"] == e["i"] for x in t[k:]):
                    inc("overshoot")
            elif op == "Close":
                inc("close." + e.get("st", "-"))
            elif op == "Resp" and e["mode"] != "206":
                inc("mode." + e["mode"].split(":")[0] if not e["mode"].startswith("st:") else "mode.status")
            elif op == "Read" and e["err"]:
                inc("read.err%d" % e["err"])
            elif op == "Deliver":
                inc("deliver.err" if e["err"] else ("deliver.done" if e["done"] else "deliver.more"))
            elif op == "CWrite" and not e["hashok"]:
                inc("hashfail")
            elif op == "CRel" and any(x["op"] in ("Close", "Ended") for x in t[:k]):
                inc("late_consume")
            elif op == "Stall":
                inc("stall")
    return c


def judge(ctx, tp):
    traces = split(tp)
    index, n = [], 0
    for t in traces:
        index.append((n, t))
        n += len(t)
        key = tuple((e["op"], e.get("buf"), e.get("idx"), e.get("i"), e.get("n"), e.get("err"), e.get("mode"), e.get("done"),
                     e.get("lo"), e.get("hi"), e.get("f")) for e in t) + (tuple(map(tuple, t[0]["files"])), t[0]["pl"], t[0]["b"], t[0]["e"])
        ctx.count_case(key, nontrivial(t))
        cnt = {}
        for e in t:
            cnt[e["op"]] = cnt.get(e["op"], 0) + 1
        g = cnt.get
        ctx.oblig("X06.a", g("Get", 0) + g("Rel", 0) + g("CRel", 0) + g("CWrite", 0) + g("Ended", 0) + g("Deliver", 0))
        ctx.oblig("X06.b", g("Deliver", 0) + g("StopAt", 0))
        ctx.oblig("X06.c", g("Deliver", 0) + g("Ended", 0) + g("Final", 0))
        ctx.oblig("X06.d", g("Ended", 0) + sum(1 for e in t if e["op"] == "Deliver" and e["err"]))
        ctx.oblig("X06.f", g("Req", 0) + g("Read", 0) + g("Deliver", 0))
    st = stats(traces)
    ctx.extra["unit_situations"] = st
    # vacuity guards: the situations the obligations are about must have been produced
    need = {"stopat.trunc": 10, "stopat.close": 5, "overshoot": 1, "close.send": 2, "close.read": 2, "deliver.done": 20, "deliver.err": 10,
            "mode.status": 3, "mode.200": 1, "mode.short": 1, "mode.long": 1, "mode.shift": 1, "mode.terr": 1, "read.err1": 3,
            "read.err2": 3, "late_consume": 10, "hashfail": 2, "boundary_inside_piece": 20, "padding": 20, "kind.script": 50}
    if not ctx.quick():
        need.update({"stall": 1, "kind.timeout": 1})
    missing = {k: (st.get(k, 0), v) for k, v in need.items() if st.get(k, 0) < v}
    ctx.sample({"trace": traces[0][:14]})
    res = ctx.tlc_validate("Trace_Webseed", tp, ntraces=len(traces), timeout=2400)
    if not res["ok"] and res["hwm"] is not None:
        raise vlib.MachineryError("Trace_Webseed could not explain line %s (driver/spec mismatch, not a verdict):\n%s"
                                  % (res["hwm"], res["out"][-2500:]))
    report(ctx, res, index, "unit")
    if missing and not ctx.violations:      # (a broken implementation may well keep the driver from getting there)
        raise vlib.MachineryError("unit driver did not produce the situations (have, need): %s" % missing)
    if getattr(ctx, "selftest", False):
        selftest(ctx, traces)


def report(ctx, res, index, part):
    seen, nrep, tags = set(), 0, {}
    for tag, line in res["viols"]:
        tags[tag] = tags.get(tag, 0) + 1
        i = max(k for k, (off, _) in enumerate(index) if off < line)
        off, t = index[i]
        pos = line - off                       # 1-based position inside the trace
        if tag.startswith("X06.machinery"):
            raise vlib.MachineryError("driver inconsistency %s at event %d: %s" % (tag, pos, json.dumps(t[:pos])[-1500:]))
        sig = signature(tag, t, pos)
        if sig in seen:
            continue
        seen.add(sig)
        if nrep >= 12:
            continue
        if ctx.violation(tag, sig, "%s run violates %s at event %d of a recorded history: %s"
                         % (part, tag, pos, json.dumps(t[pos - 1])[:300]), {"trace": t[:pos + 3]}):
            nrep += 1
    ctx.extra["violated_tags_by_count_" + part] = tags


def signature(tag, t, pos):
    """Class of the violating step: the tag, the kind of torrent, and the cause analysis for the known defects."""
    ini = t[0]
    pre = t[1:pos - 1]
    e = t[pos - 1]
    cause = "-"
    final = next((k for k, x in enumerate(pre) if x["op"] == "Deliver" and not x["err"] and x["done"]), None)
    closes = [x for x in pre if x["op"] == "Close" or (x["op"] == "StopAt" and x["closed"])]
    if tag in ("X06.a.owner", "X06.a.double", "X06.f.unneeded", "X06.b.afterfinal", "X06.b.order") and final is not None:
        trunc = any(x["op"] == "StopAt" and not x["closed"] for x in pre[:final])
        cause = "run-goes-on-after-done" + (":truncated" if trunc else ":full-range")
    elif tag == "X06.a.leak" and closes:
        c = closes[0]
        if c["op"] == "StopAt" and c.get("st") == "early":
            cause = "stopat-before-run"
        elif c.get("st") == "early":
            cause = "close-before-run"
        elif c.get("st") == "send":
            cause = "close-during-send"
        else:
            cause = "close-in-" + str(c.get("st"))
    elif tag in ("X06.f.status", "X06.f.afterfail", "X06.b.data"):
        bad = [x for x in pre if x["op"] == "Resp" and (x["status"] not in (200, 206) or x["terr"] or
                                                         x["mode"].split(":")[0] in ("200", "shift"))]
        if bad:
            m = bad[-1]["mode"].split(":")[0]
            cause = {"200": "status200-for-offset>0", "shift": "206-with-another-range"}.get(m, "after-" + m)
    return "tag=%s op=%s cause=%s multi=%d" % (tag, e["op"], cause, 1 if ini["multi"] else 0)


def selftest(ctx, traces):
    """Binding demonstration: corrupt one recorded field / drop one recorded event and require the rejection."""
    def check(bad, want, what):
        p = ctx.path("selftest.ndjson")
        vlib.write_ndjson(p, bad)
        res = ctx.tlc_validate("Trace_Webseed", p, ntraces=0)
        if not any(tag == want for tag, _ in res["viols"]):
            raise vlib.MachineryError("selftest: %s was not rejected as %s (got %s)" % (what, want, res["viols"]))
        print("selftest ok: %s rejected as %s" % (what, want), flush=True)
    clean = [t for t in traces if any(e["op"] == "Rel" for e in t) and any(e["op"] == "Deliver" and not e["err"] for e in t)]
    t = clean[0]
    k = next(i for i, e in enumerate(t) if e["op"] == "Rel")
    check([dict(x) for x in t[:k]] + [dict(x) for x in t[k + 1:]], "X06.a.leak", "a dropped release")
    check([dict(x) for x in t[:k + 1]] + [dict(t[k])] + [dict(x) for x in t[k + 1:]], "X06.a.double", "a repeated release")
    k = next(i for i, e in enumerate(t) if e["op"] == "Deliver" and not e["err"])
    bad = [dict(x) for x in t]
    bad[k]["idx"] += 7
    check(bad, "X06.b.range", "a shifted piece index")
    bad = [dict(x) for x in t]
    bad[k]["eq"] = False
    check(bad, "X06.b.data", "a buffer with other bytes")
    t2 = next(t for t in traces if sum(1 for e in t if e["op"] == "Req") >= 1)
    k = next(i for i, e in enumerate(t2) if e["op"] == "Req")
    bad = [dict(x) for x in t2]
    bad[k]["lo"] += 1
    check(bad, "X06.f.range", "a shifted Range header")
